"""Small syntactic helpers shared by the rule modules."""
from __future__ import annotations

import ast
from typing import Callable, Iterable, Iterator, List, Optional, Sequence, Set, Tuple

from .core import Func, Repo, dotted, norm, parents, walk_no_nested


def calls_in(f: Func, pred: Optional[Callable[[ast.Call], bool]] = None) -> List[ast.Call]:
    return [n for n in f.walk() if isinstance(n, ast.Call) and (pred is None or pred(n))]


def call_name(c: ast.Call) -> str:
    """Last component of the callee expression (`a.b.c(...)` -> 'c')."""
    if not isinstance(c, ast.Call):
        return ''
    fn = c.func
    if isinstance(fn, ast.Attribute):
        return fn.attr
    if isinstance(fn, ast.Name):
        return fn.id
    return ''


def handler_names(h: ast.ExceptHandler) -> List[str]:
    if h.type is None:
        return ['<bare>']
    ts = h.type.elts if isinstance(h.type, ast.Tuple) else [h.type]
    return [dotted(t) or norm(t) for t in ts]


def is_catch_all(h: ast.ExceptHandler) -> bool:
    return any(n.split('.')[-1] in ('<bare>', 'Exception', 'BaseException') for n in handler_names(h))


def reraises(h: ast.ExceptHandler) -> bool:
    for st in h.body:
        for n in walk_no_nested(st, include_self=True):
            if isinstance(n, ast.Raise):
                return True
    return False


def enclosing_trys(node: ast.AST, stop: ast.AST) -> List[ast.Try]:
    """Try statements whose body (not handlers/else/finally) contains node, innermost first, up to `stop`."""
    out: List[ast.Try] = []
    child = node
    p = getattr(node, '_parent', None)
    while p is not None and p is not stop:
        if isinstance(p, ast.Try) and any(child is b for b in p.body):
            out.append(p)
        child = p
        p = getattr(p, '_parent', None)
    return out


def enclosing_stmt(node: ast.AST) -> ast.stmt:
    n = node
    while not isinstance(n, ast.stmt):
        n = n._parent  # type: ignore[attr-defined]
    return n


def names_in(node: ast.AST) -> Set[str]:
    return {n.id for n in ast.walk(node) if isinstance(n, ast.Name)}


def attr_chain_mentions(node: ast.AST, attr: str) -> bool:
    return any(isinstance(n, ast.Attribute) and n.attr == attr for n in ast.walk(node))


def stmts_of(f: Func) -> Iterator[ast.stmt]:
    for n in f.walk():
        if isinstance(n, ast.stmt):
            yield n


def in_handler(node: ast.AST, stop: ast.AST) -> Optional[ast.ExceptHandler]:
    for p in parents(node):
        if p is stop:
            return None
        if isinstance(p, ast.ExceptHandler):
            return p
    return None


def const_str(node: Optional[ast.AST]) -> Optional[str]:
    if isinstance(node, ast.Constant) and isinstance(node.value, str):
        return node.value
    return None


def guard_tests(node: ast.AST, stop: ast.AST) -> List[Tuple[ast.expr, bool]]:
    """Normalised structural guards (see _guard_tests_raw and cfg.normalise_facts)."""
    from .cfg import normalise_facts
    return normalise_facts(_guard_tests_raw(node, stop))


def _guard_tests_raw(node: ast.AST, stop: ast.AST) -> List[Tuple[ast.expr, bool]]:
    """
    Conditions known to hold when `node` executes, from enclosing if/while/ifexp/comprehension-ifs/BoolOp:
    list of (test expression, polarity).  Purely structural (no early-exit reasoning, see cfg.dominating_tests).
    """
    out: List[Tuple[ast.expr, bool]] = []
    child = node
    p = getattr(node, '_parent', None)
    while p is not None and child is not stop:
        if isinstance(p, (ast.If, ast.While)):
            if any(child is b for b in p.body):
                out.append((p.test, True))
            elif any(child is b for b in p.orelse) and isinstance(p, ast.If):
                out.append((p.test, False))
        elif isinstance(p, ast.IfExp):
            if child is p.body:
                out.append((p.test, True))
            elif child is p.orelse:
                out.append((p.test, False))
        elif isinstance(p, ast.BoolOp) and isinstance(p.op, ast.And):
            idx = next((i for i, v in enumerate(p.values) if v is child), None)
            if idx:
                for v in p.values[:idx]:
                    out.append((v, True))
        elif isinstance(p, ast.BoolOp) and isinstance(p.op, ast.Or):
            idx = next((i for i, v in enumerate(p.values) if v is child), None)
            if idx:
                for v in p.values[:idx]:
                    out.append((v, False))
        elif isinstance(p, (ast.ListComp, ast.SetComp, ast.GeneratorExp, ast.DictComp)):
            elts = [p.elt] if not isinstance(p, ast.DictComp) else [p.key, p.value]
            if any(child is e for e in elts):
                for g in p.generators:
                    for i in g.ifs:
                        out.append((i, True))
        elif isinstance(p, ast.comprehension):
            pass
        child = p
        p = getattr(p, '_parent', None)
    return out


def values_of(f: Func, name: str) -> List[ast.AST]:
    """Values assigned to local `name` anywhere in f (Assign / AnnAssign / AugAssign / tuple-unpacking sources)."""
    out: List[ast.AST] = []
    for n in f.walk():
        if isinstance(n, ast.Assign):
            for t in n.targets:
                if isinstance(t, ast.Name) and t.id == name:
                    out.append(n.value)
                elif isinstance(t, (ast.Tuple, ast.List)) and any(isinstance(e, ast.Name) and e.id == name for e in t.elts):
                    out.append(n.value)
        elif isinstance(n, (ast.AnnAssign, ast.AugAssign)) and isinstance(n.target, ast.Name) and n.target.id == name and n.value is not None:
            out.append(n.value)
    return out


def names_assigned_from(f: Func, pred: Callable[[ast.AST], bool]) -> Set[str]:
    """Local names that receive (at least once) a value satisfying `pred`."""
    out: Set[str] = set()
    for n in f.walk():
        if isinstance(n, ast.Assign) and pred(n.value):
            for t in n.targets:
                if isinstance(t, ast.Name):
                    out.add(t.id)
        elif isinstance(n, ast.AnnAssign) and n.value is not None and pred(n.value) and isinstance(n.target, ast.Name):
            out.add(n.target.id)
    return out


def is_name_in(e: Optional[ast.AST], names: Iterable[str]) -> bool:
    return isinstance(e, ast.Name) and e.id in set(names)


def loop_exits(loop: ast.For) -> List[ast.stmt]:
    """break statements belonging to this loop and return statements inside it (nested defs excluded)."""
    out: List[ast.stmt] = []

    def rec(stmts: List[ast.stmt], own: bool) -> None:
        for st in stmts:
            if isinstance(st, (ast.FunctionDef, ast.AsyncFunctionDef, ast.ClassDef)):
                continue
            if isinstance(st, ast.Return) or (own and isinstance(st, ast.Break)):
                out.append(st)
            inner_own = own and not isinstance(st, (ast.For, ast.AsyncFor, ast.While))
            for fld in ('body', 'orelse', 'finalbody'):
                sub = getattr(st, fld, None)
                if isinstance(sub, list) and sub and isinstance(sub[0], ast.stmt):
                    rec(sub, own if fld == 'orelse' and not isinstance(st, ast.If) and not isinstance(st, ast.Try) else inner_own)
            for h in getattr(st, 'handlers', []) or []:
                rec(h.body, inner_own)
    rec(loop.body, True)
    return out


def origins(repo: Repo, f: Func, name: str, depth: int = 2) -> List[Tuple[Func, ast.AST]]:
    """Where can the value of local `name` in f come from: the right-hand sides assigned to it in f (tuple targets give the whole
    right-hand side) and, when it is a parameter, the origins of the argument at every call site of f in pydoctor (followed `depth`
    levels through plain names).  An origin that cannot be followed is returned as the expression itself."""
    out: List[Tuple[Func, ast.AST]] = []
    for n in f.walk():
        if isinstance(n, (ast.Assign, ast.AnnAssign)) and n.value is not None:
            for t in (n.targets if isinstance(n, ast.Assign) else [n.target]):
                names = [t] if isinstance(t, ast.Name) else list(t.elts) if isinstance(t, (ast.Tuple, ast.List)) else []
                if any(isinstance(x, ast.Name) and x.id == name for x in names):
                    out.append((f, n.value))
    ps = [p.arg for p in f.params()]
    if name in ps and depth > 0:
        idx = ps.index(name)
        for g in repo.funcs.values():
            if '.test' in g.mod.name:
                continue
            for c in calls_in(g, lambda c: call_name(c) == f.name):
                off = 1 if (ps and ps[0] in ('self', 'cls') and isinstance(c.func, ast.Attribute)) else 0
                arg = next((k.value for k in c.keywords if k.arg == name), c.args[idx - off] if 0 <= idx - off < len(c.args) else None)
                if arg is None:
                    continue
                if isinstance(arg, ast.Name):
                    sub = origins(repo, g, arg.id, depth - 1)
                    out.extend(sub if sub else [(g, arg)])
                else:
                    out.append((g, arg))
    return out


def not_none_fact(t: ast.AST, pol: bool, about: Optional[str] = None) -> bool:
    """Is (test, polarity) the fact `<about> is not None`, in either spelling (`x is not None` true / `x is None` false / truthiness of x)?"""
    while isinstance(t, ast.UnaryOp) and isinstance(t.op, ast.Not):
        t, pol = t.operand, not pol
    if isinstance(t, ast.Compare) and len(t.ops) == 1 and isinstance(t.comparators[0], ast.Constant) and t.comparators[0].value is None:
        if about is not None and norm(t.left) != about:
            return False
        return (isinstance(t.ops[0], (ast.IsNot, ast.NotEq)) and pol) or (isinstance(t.ops[0], (ast.Is, ast.Eq)) and not pol)
    return False


def callers_by_name(repo: Repo, g: Func) -> List[Func]:
    """Functions that contain a call spelled with g's name (a name-level over-approximation of g's callers)."""
    out = []
    for f in repo.funcs.values():
        if f is g:
            continue
        if any(call_name(c) == g.name for c in calls_in(f)):
            out.append(f)
    return out


def private_helper_of(repo: Repo, g: Func, owner_qn: str) -> bool:
    """g is a private (underscore) function of the owner's module whose only callers are the owner itself (or other such helpers of it)."""
    owner = repo.funcs.get(owner_qn)
    if owner is None or g.mod is not owner.mod or not g.name.startswith('_') or g.name.startswith('__'):
        return False
    seen = {g.qn}
    todo = [g]
    while todo:
        h = todo.pop()
        cs = callers_by_name(repo, h)
        if not cs:
            return False
        for c in cs:
            if c is owner or c.qn in seen:
                continue
            if c.mod is owner.mod and c.name.startswith('_') and not c.name.startswith('__'):
                seen.add(c.qn)
                todo.append(c)
            else:
                return False
    return True


def parser_valued(repo: Repo, f: Func, name: str, depth: int = 0) -> bool:
    """Does the local `name` of f hold a docstring parser (get_parser_by_name(...) / processtypes(...), directly or through a helper that returns one)?"""
    for v in values_of(f, name):
        if not isinstance(v, ast.Call):
            continue
        if call_name(v) in ('get_parser_by_name', 'processtypes'):
            return True
        if depth < 2:
            for g in repo.funcs.values():
                if g.mod is f.mod and g.name == call_name(v) and g.cls is None:
                    for r in g.walk():
                        if isinstance(r, ast.Return) and isinstance(r.value, ast.Name) and parser_valued(repo, g, r.value.id, depth + 1):
                            return True
                        if isinstance(r, ast.Return) and isinstance(r.value, ast.Call) and call_name(r.value) in ('get_parser_by_name', 'processtypes'):
                            return True
    return False


def impl_funcs(repo: Repo, f: Func, depth: int = 1) -> List[Func]:
    """f and the private helpers (module-level of its module, or methods of its class) it calls, `depth` levels down: "the implementation of f"."""
    funcs = [f]
    frontier = [f]
    for _ in range(depth):
        nxt = []
        for h in frontier:
            names = {call_name(c) for c in calls_in(h)}
            for g in repo.funcs.values():
                if g.mod is f.mod and g.name in names and g not in funcs and g.name.startswith('_') and not g.name.startswith('__') and \
                        (g.cls is None or g.cls is f.cls) and g.outer is None:
                    funcs.append(g)
                    nxt.append(g)
        frontier = nxt
    return funcs


def scope_nodes(repo: Repo, f: Func, depth: int = 1) -> List[ast.AST]:
    """The nodes of f, of the module-level / same-class private helpers it calls (one level by default) and of the module constants they read:
    where a rule asks "does the implementation of f mention X", an extracted helper or a hoisted constant is still the implementation of f."""
    out: List[ast.AST] = list(f.walk())
    funcs = [f]
    frontier = [f]
    for _ in range(depth):
        nxt = []
        for h in frontier:
            names = {call_name(c) for c in calls_in(h)}
            for g in repo.funcs.values():
                if g.mod is f.mod and g.name in names and g not in funcs and g.name.startswith('_') and not g.name.startswith('__') and \
                        (g.cls is None or g.cls is f.cls) and g.outer is None:
                    funcs.append(g)
                    nxt.append(g)
                    out += list(g.walk())
        frontier = nxt
    read = {x.id for x in out if isinstance(x, ast.Name)} | {x.attr for x in out if isinstance(x, ast.Attribute)}
    for k, v in f.mod.assigns.items():
        if k in read:
            out += list(ast.walk(v))
    if f.cls is not None:
        for k, v in f.cls.aliases.items():
            if k in read:
                out += list(ast.walk(v))
    return out


def tuple_helpers(repo: Repo, f: Func) -> List[Tuple[Func, dict]]:
    """Private helpers of f's class / module whose returned tuple is unpacked by f: [(helper, {helper local -> local of f})]."""
    out = []
    for a in f.walk():
        if isinstance(a, ast.Assign) and isinstance(a.targets[0], ast.Tuple) and isinstance(a.value, ast.Call):
            for g in repo.funcs.values():
                if g.mod is f.mod and g.name == call_name(a.value) and (g.cls is f.cls or g.cls is None) and g is not f:
                    ren = {}
                    for r in g.walk():
                        if isinstance(r, ast.Return) and isinstance(r.value, ast.Tuple) and len(r.value.elts) == len(a.targets[0].elts):
                            for x, t in zip(r.value.elts, a.targets[0].elts):
                                if isinstance(x, ast.Name) and isinstance(t, ast.Name):
                                    ren[x.id] = t.id
                    out.append((g, ren))
    return out


def eval3(e: ast.AST, atom: Callable[[ast.AST], Optional[bool]]) -> Optional[bool]:
    """Three-valued evaluation of a boolean expression under a scenario: `atom` gives the truth of the comparisons / names it knows (None = unknown);
    and / or / not are evaluated with Kleene's rules.  A guard holds in the scenario when a dominating fact (t, pol) has eval3(t) == (not pol)."""
    v = atom(e)
    if v is not None:
        return v
    if isinstance(e, ast.UnaryOp) and isinstance(e.op, ast.Not):
        x = eval3(e.operand, atom)
        return None if x is None else not x
    if isinstance(e, ast.BoolOp):
        vs = [eval3(x, atom) for x in e.values]
        if isinstance(e.op, ast.And):
            return False if any(x is False for x in vs) else (True if all(x is True for x in vs) else None)
        return True if any(x is True for x in vs) else (False if all(x is False for x in vs) else None)
    if isinstance(e, ast.Compare) and len(e.ops) == 1 and type(e.ops[0]) in (ast.NotEq, ast.IsNot, ast.NotIn):
        pos = ast.Compare(left=e.left, ops=[{ast.NotEq: ast.Eq, ast.IsNot: ast.Is, ast.NotIn: ast.In}[type(e.ops[0])]()], comparators=e.comparators)
        x = atom(pos)
        return None if x is None else not x
    return None


def excluded_by(facts: Iterable[Tuple[ast.AST, bool]], atom: Callable[[ast.AST], Optional[bool]]) -> bool:
    """Is the scenario described by `atom` impossible at a point with these dominating facts (some fact is contradicted)?"""
    for t, pol in facts:
        v = eval3(t, atom)
        if v is not None and v != pol:
            return True
    return False


def single_value(f: Func, name: str) -> Optional[ast.AST]:
    """The expression a local is bound to when it is assigned exactly once in f (a named intermediate), else None."""
    vals = values_of(f, name)
    return vals[0] if len(vals) == 1 else None


def expanded_text(f: Func, e: ast.AST, depth: int = 2) -> str:
    """Normalised text of e followed by the text of the expressions its single-assignment locals stand for (named booleans, hoisted paths)."""
    out = [norm(e)]
    if depth > 0:
        for x in ast.walk(e):
            if isinstance(x, ast.Name):
                v = single_value(f, x.id)
                if v is not None:
                    out.append(expanded_text(f, v, depth - 1))
    return ' '.join(out)


def is_report_call(repo: Repo, c: ast.AST) -> bool:
    """c calls `.report(...)`, or a module-level / same-class private helper every path of which does (`_report_variable_field(obj, field, msg)`)."""
    if not isinstance(c, ast.Call):
        return False
    nm = call_name(c)
    if nm == 'report':
        return True
    if not nm.startswith('_') or nm.startswith('__'):
        return False
    for g in repo.funcs.values():
        if g.name == nm and g.outer is None and g.mod.name.startswith('pydoctor.') and '.test' not in g.mod.name:
            body = [st for st in g.node.body if not (isinstance(st, ast.Expr) and isinstance(st.value, ast.Constant))]
            if body and all(isinstance(st, ast.Expr) and isinstance(st.value, ast.Call) and call_name(st.value) == 'report' for st in body):
                return True
    return False
