"""Theme templates: parsed as XML (never rendered); census of t:render / t:slot names, link targets and anchors."""
from __future__ import annotations

import os
from pathlib import Path
from typing import Dict, List, Optional, Tuple
from xml.dom import minidom

from .core import AnalysisError

T_NS = 'http://twistedmatrix.com/ns/twisted.web.template/0.1'


class Template:
    def __init__(self, theme: str, name: str, path: Path):
        self.theme = theme
        self.name = name
        self.path = path
        self.text = path.read_text(encoding='utf-8')
        self.dom: Optional[minidom.Document] = None
        self.error: Optional[str] = None
        try:
            if self.text.strip():
                self.dom = minidom.parseString(self.text)
        except Exception as e:  # xml.parsers.expat.ExpatError
            self.error = str(e)

    def elements(self):
        if self.dom is None:
            return []
        out = []
        todo = [self.dom.documentElement]
        while todo:
            n = todo.pop()
            if n.nodeType == n.ELEMENT_NODE:
                out.append(n)
                todo.extend(n.childNodes)
        return out

    def renders(self) -> List[str]:
        out = []
        for e in self.elements():
            for i in range(e.attributes.length):
                a = e.attributes.item(i)
                if a.name == 't:render' or (a.namespaceURI == T_NS and a.localName == 'render'):
                    out.append(a.value)
        return out

    def slots(self) -> List[str]:
        return [e.getAttribute('name') for e in self.elements() if e.tagName in ('t:slot',) and e.getAttribute('name')]

    def attr_values(self, attr: str) -> List[Tuple[str, str]]:
        """(tagName, value) for literal attributes `attr` (not t:attr renderers)."""
        return [(e.tagName, e.getAttribute(attr)) for e in self.elements() if e.hasAttribute(attr)]


def load_templates(root: Path) -> Dict[str, Dict[str, Template]]:
    base = root / 'pydoctor' / 'themes'
    if not base.is_dir():
        raise AnalysisError(f'no themes directory {base}')
    out: Dict[str, Dict[str, Template]] = {}
    for theme in sorted(p.name for p in base.iterdir() if p.is_dir() and not p.name.startswith('_')):
        d: Dict[str, Template] = {}
        for dirpath, dirnames, filenames in os.walk(base / theme):
            dirnames.sort()
            for fn in sorted(filenames):
                if fn.endswith('.html'):
                    p = Path(dirpath) / fn
                    rel = str(p.relative_to(base / theme))
                    d[rel] = Template(theme, rel, p)
        out[theme] = d
    return out


def theme_files(root: Path) -> Dict[str, List[str]]:
    base = root / 'pydoctor' / 'themes'
    out: Dict[str, List[str]] = {}
    for theme in sorted(p.name for p in base.iterdir() if p.is_dir() and not p.name.startswith('_')):
        files = []
        for dirpath, dirnames, filenames in os.walk(base / theme):
            for fn in filenames:
                files.append(str((Path(dirpath) / fn).relative_to(base / theme)))
        out[theme] = sorted(files)
    return out
