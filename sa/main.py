"""Command line driver: ./check Cnn [--thorough] [--repo PATH] [--replay FILE] [--no-evidence]"""
from __future__ import annotations

import importlib
import json
import os
import sys
import traceback
from pathlib import Path

HERE = Path(__file__).resolve().parent
sys.path.insert(0, str(HERE.parent))

from sa.core import AnalysisError, Repo  # noqa: E402
from sa.report import Check  # noqa: E402


def main(argv: list) -> int:
    args = [a for a in argv if not a.startswith('--')]
    if not args:
        print('usage: check <Cnn> [--thorough] [--repo PATH] [--replay FILE] [--no-evidence]')
        return 2
    prop = args[0]
    thorough = '--thorough' in argv or os.environ.get('VERIF_TIER') == 'thorough'
    repo_root = '/repo'
    replay = None
    for i, a in enumerate(argv):
        if a == '--repo':
            repo_root = argv[i + 1]
        if a == '--replay':
            replay = argv[i + 1]
    if os.environ.get('VERIF_REPO'):
        repo_root = os.environ['VERIF_REPO']
    args = [a for a in args if a not in (repo_root, replay)]
    seed = int(os.environ.get('VERIF_SEED', '0') or 0)
    if replay:
        try:
            data = json.loads(Path(replay).read_text())
        except Exception as e:
            print(f'ANALYSIS-ERROR cannot read replay file {replay}: {e}')
            return 2
        print('replaying finding:', json.dumps(data, indent=1))
        prop = data.get('property', prop)
    chk = Check(prop, 'thorough' if thorough else 'quick', repo_root)
    try:
        mod = importlib.import_module(f'sa.rules.{prop.lower()}')
    except ModuleNotFoundError:
        print(f'ANALYSIS-ERROR property={prop} no rule module sa/rules/{prop.lower()}.py')
        return 2
    try:
        repo = Repo(repo_root)
        mod.run(repo, chk, thorough)
        if thorough and '--no-selftest' not in argv:
            # The two-way self-test judges the checker, so it only makes sense on a tree the rules accept: on a tree with
            # violations every variant would inherit them.
            unlisted = [o for o in chk.obligations if not o.ok and not any(
                e.get('rule') == o.rule and e.get('instance') == o.key for e in chk._known())]
            if unlisted or chk.errors:
                chk.note('self-test skipped: the tree under analysis has violations / analysis errors of its own')
            else:
                from sa import selftest
                selftest.run_for(prop, chk)
    except AnalysisError as e:
        chk.error(str(e))
    except Exception:
        tb = traceback.format_exc()
        chk.error('checker crashed: ' + tb.strip().splitlines()[-1])
        sys.stderr.write(tb)
    return chk.finish(seed=seed, write_evidence='--no-evidence' not in argv)


if __name__ == '__main__':
    sys.exit(main(sys.argv[1:]))
