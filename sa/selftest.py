"""
Two-way self-test of the checker (thorough tier): every *breaking* variant must be reported, every *behaviour-preserving
twin* must be silent.  Variants are applied to a scratch copy of /repo's current pydoctor package (outside /repo and /verif,
removed afterwards) and the same check is run on it with --repo.

Sources of variants:
  * /verif/sa/selftest/<Cnn>.json : text edits {file, old, new} (old must occur exactly once), kind 'break' or 'twin',
    for 'break' the rule ids expected to fire;
  * /verif/seeded/<id>/ (patch.diff + meta.json) : changes produced by independent fault seeders, for the property they break
    and for the checks recorded as catching them.
A variant whose anchor text / patch no longer applies to the current tree is *stale* (the tree moved) - reported, not a failure,
unless most of the corpus is stale.  A self-test failure is an ANALYSIS-ERROR (the checker is wrong), never a violation of pydoctor.
"""
from __future__ import annotations

import concurrent.futures
import json
import os
import re
import shutil
import subprocess
import sys
import tempfile
from pathlib import Path
from typing import Any, Dict, List, Optional, Tuple

VERIF = Path(__file__).resolve().parent.parent
CORPUS = VERIF / 'sa' / 'selftest'
SEEDED = VERIF / 'seeded'


def _copy_repo(src: Path, dst: Path) -> None:
    def ignore(d: str, names: List[str]) -> List[str]:
        return [n for n in names if n in ('__pycache__', 'test', '.git') or n.endswith('.pyc')]
    shutil.copytree(src / 'pydoctor', dst / 'pydoctor', ignore=ignore)


def _run_check(prop: str, root: Path) -> Tuple[int, List[str]]:
    py = sys.executable
    p = subprocess.run([py, '-S', '-E', str(VERIF / 'sa' / 'main.py'), prop, '--repo', str(root), '--no-evidence', '--no-selftest'],
                       capture_output=True, text=True, timeout=300)
    fails = re.findall(r'^FAIL (\S+) ', p.stdout, flags=re.M)
    errs = re.findall(r'^ANALYSIS-ERROR .*$', p.stdout, flags=re.M)
    return p.returncode, fails + [f'ANALYSIS-ERROR:{e[:120]}' for e in errs]


def _one(prop: str, repo_root: str, v: Dict[str, Any]) -> Dict[str, Any]:
    tmp = Path(tempfile.mkdtemp(prefix='pydoctor-verif-selftest-', dir=os.environ.get('TMPDIR') or None))
    res: Dict[str, Any] = {'name': v['name'], 'kind': v['kind'], 'expect': v.get('expect', [])}
    try:
        _copy_repo(Path(repo_root), tmp)
        if 'generator' in v:
            from . import twins
            n = twins.rewrite_tree(tmp, v['generator'])
            if n < 40:
                res['status'] = 'error'
                res['detail'] = f'twin generator rewrote only {n} files'
                return res
        elif 'patch' in v:
            p = subprocess.run(['patch', '-p1', '-s', '-f', '--no-backup-if-mismatch', '-d', str(tmp), '-i', v['patch']],
                               capture_output=True, text=True)
            if p.returncode != 0:
                res['status'] = 'stale'
                res['detail'] = 'patch does not apply to the current tree'
                return res
        else:
            for e in v['edits']:
                path = tmp / e['file']
                try:
                    text = path.read_text(encoding='utf-8')
                except OSError:
                    res['status'] = 'stale'
                    res['detail'] = f'{e["file"]} missing'
                    return res
                if text.count(e['old']) != 1:
                    res['status'] = 'stale'
                    res['detail'] = f'anchor text occurs {text.count(e["old"])} times in {e["file"]}'
                    return res
                path.write_text(text.replace(e['old'], e['new']), encoding='utf-8')
        rc, fired = _run_check(prop, tmp)
        res['exit'] = rc
        res['fired'] = sorted(set(fired))
        if v['kind'] == 'twin':
            res['status'] = 'ok' if rc == 0 else 'FALSE-ALARM'
        else:
            want = set(v.get('expect') or [])
            hit = rc == 1 and (not want or bool(want & set(fired)))
            res['status'] = 'ok' if hit else 'MISSED'
        return res
    except Exception as e:  # pragma: no cover
        res['status'] = 'error'
        res['detail'] = repr(e)
        return res
    finally:
        shutil.rmtree(tmp, ignore_errors=True)


def variants_for(prop: str) -> List[Dict[str, Any]]:
    out: List[Dict[str, Any]] = []
    f = CORPUS / f'{prop}.json'
    if f.exists():
        for v in json.loads(f.read_text()):
            out.append(v)
    out.append({'name': 'generated twin: every module reformatted with ast.unparse (all line numbers, quotes and comments change)',
                'kind': 'twin', 'generator': 'unparse'})
    out.append({'name': 'generated twin: every local variable of every function renamed', 'kind': 'twin', 'generator': 'rename'})
    out.append({'name': 'generated twin: every plain if/else rewritten as `if not c: <else> else: <then>`', 'kind': 'twin', 'generator': 'ifswap'})
    out.append({'name': 'generated twin: a `pass` inserted after every statement of every function', 'kind': 'twin', 'generator': 'padpass'})
    out.append({'name': 'generated twin: every guard clause `if c: ...; return` + rest rewritten as if/else', 'kind': 'twin', 'generator': 'guard2else'})
    # independent behaviour-preserving refactorings (seeded/_twins): each runs against its own property and against every property whose check
    # raised an alarm on it when it was first measured
    for tw_dir in ('_twins', '_twins2', '_twins3'):
        tw_index = SEEDED / tw_dir / 'index.json'
        if tw_index.exists():
            for tid, info in sorted(json.loads(tw_index.read_text()).items()):
                if prop == info.get('own') or prop in info.get('alarmed_at_first_measurement', []):
                    pd = SEEDED / tw_dir / tid / 'patch.diff'
                    if pd.exists():
                        out.append({'name': f'independent refactoring {tid}', 'kind': 'twin', 'patch': str(pd)})
    if SEEDED.is_dir():
        for d in sorted(SEEDED.iterdir()):
            m = d / 'meta.json'
            if not m.exists():
                continue
            meta = json.loads(m.read_text())
            caught = meta.get('caught_by', {})
            if meta.get('now_twin') and prop in meta.get('twin_for', [meta.get('property')]):
                # a seeded change that a later repair of pydoctor turned into a behaviour-preserving edit: must be silent now
                out.append({'name': f'seeded/{d.name} (behaviour-preserving since {meta["now_twin"]})', 'kind': 'twin', 'patch': str(d / 'patch.diff')})
                continue
            if prop in caught:
                out.append({'name': f'seeded/{d.name}', 'kind': 'break', 'patch': str(d / 'patch.diff'), 'expect': caught[prop]})
    return out


def run_for(prop: str, chk: Any) -> None:
    vs = variants_for(prop)
    if not vs:
        chk.note('self-test: no variants for this property')
        return
    results: List[Dict[str, Any]] = []
    with concurrent.futures.ThreadPoolExecutor(max_workers=min(16, os.cpu_count() or 4)) as ex:
        futs = [ex.submit(_one, prop, chk.repo_root, v) for v in vs]
        for fu in futs:
            results.append(fu.result())
    stale = [r for r in results if r['status'] == 'stale']
    bad = [r for r in results if r['status'] in ('MISSED', 'FALSE-ALARM', 'error')]
    chk.selftest = {
        'variants': len(results),
        'breaking_detected': sum(1 for r in results if r['kind'] == 'break' and r['status'] == 'ok'),
        'twins_silent': sum(1 for r in results if r['kind'] == 'twin' and r['status'] == 'ok'),
        'stale': len(stale),
        'failed': len(bad),
        'results': results,
    }
    print(f'  self-test: {len(results)} variants, {chk.selftest["breaking_detected"]} breaking detected, '
          f'{chk.selftest["twins_silent"]} twins silent, {len(stale)} stale, {len(bad)} failed')
    for r in bad:
        chk.error(f'self-test {r["status"]}: variant {r["name"]} ({r["kind"]}) expected {r.get("expect")} got exit={r.get("exit")} fired={r.get("fired")} {r.get("detail", "")}')
    if len(stale) > max(2, len(results) // 2):
        chk.error(f'self-test: {len(stale)} of {len(results)} variants no longer apply to the current tree (corpus is stale)')
