"""
Statement-level control-flow graph for one function (hand built, stdlib only).

Nodes are the ast statement objects themselves (a compound statement stands for the evaluation of its header:
the `if` test, the `for` iterator, the `with` items, the `try` entry) plus ENTRY / EXIT (normal return) /
RAISE (exceptional exit).  Edges carry an optional label (test expression, polarity).
Exceptional edges: every statement inside a `try` body has an edge to each handler (and to `finally`);
a `raise` goes to the innermost handlers, else to RAISE.  Calls are assumed to possibly raise only where a
try encloses them (that is what the rules need: "what may reach the handler").
"""
from __future__ import annotations

import ast
from typing import Dict, Iterable, List, Optional, Sequence, Set, Tuple

from .core import Func


class _Special:
    def __init__(self, name: str):
        self.name = name

    def __repr__(self) -> str:
        return self.name


Label = Optional[Tuple[ast.expr, bool]]


class CFG:
    def __init__(self, f: Func):
        self.f = f
        self.ENTRY = _Special('ENTRY')
        self.EXIT = _Special('EXIT')
        self.RAISE = _Special('RAISE')
        self.succ: Dict[int, List[Tuple[object, Label, str]]] = {}
        self.nodes: Dict[int, object] = {}
        for s in (self.ENTRY, self.EXIT, self.RAISE):
            self.nodes[id(s)] = s
            self.succ[id(s)] = []
        body = f.body()
        # frames: list of dicts describing enclosing loops / trys
        first = self._seq(body, self.EXIT, [], None)
        self._edge(self.ENTRY, first, None, 'seq')

    # --------------------------------------------------------------- construction
    def _edge(self, a: object, b: object, label: Label, kind: str) -> None:
        self.nodes.setdefault(id(a), a)
        self.nodes.setdefault(id(b), b)
        self.succ.setdefault(id(a), [])
        self.succ.setdefault(id(b), [])
        for (t, l, k) in self.succ[id(a)]:
            if t is b and l == label and k == kind:
                return
        self.succ[id(a)].append((b, label, kind))

    def _seq(self, stmts: Sequence[ast.stmt], follow: object, ctx: List[dict], _unused: object) -> object:
        """Wire a statement list; returns its first node (or `follow` if empty)."""
        nxt = follow
        for st in reversed(list(stmts)):
            nxt = self._stmt(st, nxt, ctx)
        return nxt

    def _exc_targets(self, ctx: List[dict]) -> List[object]:
        """Where an exception raised here goes: handlers of the innermost enclosing try body, else RAISE."""
        for fr in reversed(ctx):
            if fr['kind'] == 'try':
                return fr['targets']
        return [self.RAISE]

    def _stmt(self, st: ast.stmt, follow: object, ctx: List[dict]) -> object:
        self.nodes[id(st)] = st
        self.succ.setdefault(id(st), [])
        in_try = any(fr['kind'] == 'try' for fr in ctx)
        if isinstance(st, ast.If):
            b = self._seq(st.body, follow, ctx, None)
            o = self._seq(st.orelse, follow, ctx, None)
            self._edge(st, b, (st.test, True), 'cond')
            self._edge(st, o, (st.test, False), 'cond')
        elif isinstance(st, (ast.While,)):
            loopctx = ctx + [{'kind': 'loop', 'head': st, 'after': follow}]
            o = self._seq(st.orelse, follow, ctx, None)
            b = self._seq(st.body, st, loopctx, None)
            self._edge(st, b, (st.test, True), 'cond')
            if not (isinstance(st.test, ast.Constant) and st.test.value is True):
                self._edge(st, o, (st.test, False), 'cond')
        elif isinstance(st, (ast.For, ast.AsyncFor)):
            loopctx = ctx + [{'kind': 'loop', 'head': st, 'after': follow}]
            o = self._seq(st.orelse, follow, ctx, None)
            b = self._seq(st.body, st, loopctx, None)
            self._edge(st, b, None, 'iter')
            self._edge(st, o, None, 'exhausted')
        elif isinstance(st, (ast.With, ast.AsyncWith)):
            b = self._seq(st.body, follow, ctx, None)
            self._edge(st, b, None, 'seq')
        elif isinstance(st, ast.Try):
            after = follow
            if st.finalbody:
                fin = self._seq(st.finalbody, follow, ctx, None)
                # finally may also continue the propagation of an exception
                last_fin = st.finalbody[-1]
                for tgt in self._exc_targets(ctx):
                    self._edge(last_fin, tgt, None, 'exc')
                after = fin
            handler_entries: List[object] = []
            for h in st.handlers:
                hb = self._seq(h.body, after, ctx, None)
                self.nodes[id(h)] = h
                self.succ.setdefault(id(h), [])
                self._edge(h, hb, None, 'seq')
                handler_entries.append(h)
            targets = list(handler_entries)
            # an exception not matched by any handler continues outwards (through finally if any)
            catch_all = any(h.type is None or (isinstance(h.type, ast.Name) and h.type.id in ('Exception', 'BaseException'))
                            for h in st.handlers)
            if not catch_all:
                targets.extend([after] if st.finalbody else self._exc_targets(ctx))
            tryctx = ctx + [{'kind': 'try', 'targets': targets, 'node': st}]
            o = self._seq(st.orelse, after, ctx, None)
            b = self._seq(st.body, o, tryctx, None)
            self._edge(st, b, None, 'seq')
        elif isinstance(st, ast.Return):
            self._edge(st, self._through_finally(ctx, self.EXIT), None, 'return')
        elif isinstance(st, ast.Raise):
            for tgt in self._exc_targets(ctx):
                self._edge(st, tgt, None, 'exc')
        elif isinstance(st, ast.Break):
            for fr in reversed(ctx):
                if fr['kind'] == 'loop':
                    self._edge(st, fr['after'], None, 'break')
                    break
        elif isinstance(st, ast.Continue):
            for fr in reversed(ctx):
                if fr['kind'] == 'loop':
                    self._edge(st, fr['head'], None, 'continue')
                    break
        else:
            self._edge(st, follow, None, 'seq')
        if in_try and not isinstance(st, (ast.Raise, ast.Break, ast.Continue, ast.Pass)):
            for tgt in self._exc_targets(ctx):
                self._edge(st, tgt, None, 'exc')
        return st

    def _through_finally(self, ctx: List[dict], target: object) -> object:
        return target

    # --------------------------------------------------------------- queries
    def successors(self, n: object, kinds: Optional[Set[str]] = None) -> List[object]:
        return [t for (t, l, k) in self.succ.get(id(n), []) if kinds is None or k in kinds]

    def reachable(self, start: object, avoid_nodes: Iterable[object] = (), avoid_edges: Iterable[Tuple[int, int, str]] = (),
                  no_exc: bool = False) -> Set[int]:
        avoid = {id(a) for a in avoid_nodes}
        ae = set(avoid_edges)
        seen: Set[int] = set()
        todo = [start]
        while todo:
            n = todo.pop()
            if id(n) in seen or id(n) in avoid:
                continue
            seen.add(id(n))
            for (t, l, k) in self.succ.get(id(n), []):
                if no_exc and k == 'exc':
                    continue
                if (id(n), id(t), k) in ae:
                    continue
                todo.append(t)
        return seen

    def dominates(self, a: object, b: object, no_exc: bool = False) -> bool:
        """Every path ENTRY -> b passes through a."""
        if a is b:
            return True
        return id(b) not in self.reachable(self.ENTRY, avoid_nodes=[a], no_exc=no_exc)

    def must_pass(self, src: object, dst: object, via: Iterable[object], no_exc: bool = False) -> bool:
        """Every path src -> dst passes through one of `via`."""
        r = self.reachable(src, avoid_nodes=list(via), no_exc=no_exc)
        return id(dst) not in r

    def dominating_tests(self, node: object, no_exc: bool = True, raw: bool = False) -> List[Tuple[ast.expr, bool]]:
        """Labelled (test, polarity) edges that every path ENTRY -> node traverses.
        Unless raw=True the facts are normalised: `not X` is reported as (X, flipped polarity), a true conjunction /
        false disjunction is also reported operand by operand - so `if c: A else: B` and `if not c: B else: A` give the same facts."""
        facts = self._dominating_tests_raw(node, no_exc)
        if raw:
            return facts
        return normalise_facts(self._expand_named_tests(normalise_facts(facts)))

    def subst_named(self, e: ast.AST, depth: int = 2) -> ast.AST:
        """e with every local that is assigned exactly once from a comparison / boolean expression / call replaced by that expression (a copy; the
        original nodes are shared, so identity tests on sub-expressions - `x is some_call` - keep working)."""
        if depth <= 0:
            return e
        try:
            body_nodes = list(self.f.walk())
        except Exception:
            return e

        def value_of(name: str) -> Optional[ast.AST]:
            vals = [n.value for n in body_nodes if isinstance(n, (ast.Assign, ast.AnnAssign)) and n.value is not None and
                    any(isinstance(x, ast.Name) and x.id == name for x in (n.targets if isinstance(n, ast.Assign) else [n.target]))]
            aug = any(isinstance(n, ast.AugAssign) and isinstance(n.target, ast.Name) and n.target.id == name for n in body_nodes)
            if len(vals) == 1 and not aug and isinstance(vals[0], (ast.Compare, ast.BoolOp, ast.UnaryOp, ast.Call)):
                return vals[0]
            return None
        if isinstance(e, ast.Name):
            v = value_of(e.id)
            return self.subst_named(v, depth - 1) if v is not None else e
        if isinstance(e, ast.UnaryOp) and isinstance(e.op, ast.Not):
            inner = self.subst_named(e.operand, depth)
            if inner is not e.operand:
                n = ast.UnaryOp(op=ast.Not(), operand=inner)
                ast.copy_location(n, e)
                return n
            return e
        if isinstance(e, ast.BoolOp):
            vals2 = [self.subst_named(v, depth) for v in e.values]
            if any(a is not b for a, b in zip(vals2, e.values)):
                n2 = ast.BoolOp(op=e.op, values=vals2)
                ast.copy_location(n2, e)
                return n2
            return e
        return e

    def scenario_facts(self, node: object, no_exc: bool = True) -> List[Tuple[ast.expr, bool]]:
        """Raw dominating facts with named booleans written out: the input of util.excluded_by()."""
        return [(self.subst_named(t), pol) for t, pol in self._dominating_tests_raw(node, no_exc)]  # type: ignore[misc]

    def _expand_named_tests(self, facts: List[Tuple[ast.expr, bool]]) -> List[Tuple[ast.expr, bool]]:
        """A test of a local that is assigned exactly once from a comparison / boolean expression / call (`is_violation = thresh < 0` ... `if is_violation:`)
        is also reported as the fact about that expression: a named boolean is the test it names."""
        out = list(facts)
        try:
            body_nodes = list(self.f.walk())
        except Exception:
            return out
        for t, pol in facts:
            if not isinstance(t, ast.Name):
                continue
            vals = [n.value for n in body_nodes if isinstance(n, (ast.Assign, ast.AnnAssign)) and n.value is not None and
                    any(isinstance(x, ast.Name) and x.id == t.id for x in (n.targets if isinstance(n, ast.Assign) else [n.target]))]
            aug = any(isinstance(n, ast.AugAssign) and isinstance(n.target, ast.Name) and n.target.id == t.id for n in body_nodes)
            if len(vals) == 1 and not aug and isinstance(vals[0], (ast.Compare, ast.BoolOp, ast.UnaryOp, ast.Call)):
                out.append((vals[0], pol))
        return out

    def _dominating_tests_raw(self, node: object, no_exc: bool = True) -> List[Tuple[ast.expr, bool]]:
        out: List[Tuple[ast.expr, bool]] = []
        base = self.reachable(self.ENTRY, no_exc=no_exc)
        if id(node) not in base:
            return out
        for nid, edges in self.succ.items():
            for (t, l, k) in edges:
                if l is None:
                    continue
                # all edges carrying the same label out of this node
                r = self.reachable(self.ENTRY, avoid_edges=[(nid, id(t), k)], no_exc=no_exc)
                if id(node) not in r:
                    out.append(l)
        return out

    def stmt_of(self, node: ast.AST) -> ast.stmt:
        n = node
        while id(n) not in self.nodes or not isinstance(n, (ast.stmt, ast.ExceptHandler)):
            n = n._parent  # type: ignore[attr-defined]
        return n  # type: ignore[return-value]

    def before(self, a: ast.AST, b: ast.AST) -> bool:
        """a's statement dominates b's statement and they differ (a happens before b on every path to b)."""
        sa, sb = self.stmt_of(a), self.stmt_of(b)
        if sa is sb:
            return getattr(a, 'lineno', 0) < getattr(b, 'lineno', 0) or \
                (getattr(a, 'lineno', 0) == getattr(b, 'lineno', 0) and getattr(a, 'col_offset', 0) < getattr(b, 'col_offset', 0))
        return self.dominates(sa, sb)


def normalise_facts(facts: List[Tuple[ast.expr, bool]]) -> List[Tuple[ast.expr, bool]]:
    out: List[Tuple[ast.expr, bool]] = []
    todo = list(facts)
    seen = set()
    while todo:
        t, pol = todo.pop(0)
        while isinstance(t, ast.UnaryOp) and isinstance(t.op, ast.Not):
            t, pol = t.operand, not pol
        key = (id(t), pol)
        if key in seen:
            continue
        seen.add(key)
        out.append((t, pol))
        if isinstance(t, ast.BoolOp):
            if (isinstance(t.op, ast.And) and pol) or (isinstance(t.op, ast.Or) and not pol):
                todo.extend((v, pol) for v in t.values)
        # a comparison is also reported in its complemented spelling: (`a != b`, False) is the fact (`a == b`, True), and so on - a rule that looks
        # for one spelling finds it whichever way round the source wrote the test (`if a != b: return` guard or `if a == b:` block)
        if isinstance(t, ast.Compare) and len(t.ops) == 1 and type(t.ops[0]) in _COMPLEMENT:
            c = ast.Compare(left=t.left, ops=[_COMPLEMENT[type(t.ops[0])]()], comparators=t.comparators)
            ast.copy_location(c, t)
            c._parent = getattr(t, '_parent', None)  # type: ignore[attr-defined]
            key2 = (id(t), 'complement')
            if key2 not in seen:
                seen.add(key2)  # type: ignore[arg-type]
                out.append((c, not pol))
    return out


_COMPLEMENT = {ast.Eq: ast.NotEq, ast.NotEq: ast.Eq, ast.Is: ast.IsNot, ast.IsNot: ast.Is, ast.In: ast.NotIn, ast.NotIn: ast.In,
               ast.Lt: ast.GtE, ast.GtE: ast.Lt, ast.Gt: ast.LtE, ast.LtE: ast.Gt}


def if_branches(n: ast.If) -> Tuple[ast.expr, List[ast.stmt], List[ast.stmt]]:
    """(positive test, statements executed when it is true, statements executed when it is false) - `not` is peeled off."""
    t: ast.expr = n.test
    body, orelse = n.body, n.orelse
    while isinstance(t, ast.UnaryOp) and isinstance(t.op, ast.Not):
        t = t.operand
        body, orelse = orelse, body
    return t, body, orelse
