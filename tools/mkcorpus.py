import json, sys
from pathlib import Path
R=Path('/repo')
C={}
def add(prop, name, kind, edits, expect=None):
    C.setdefault(prop,[]).append({'name':name,'kind':kind,'edits':[{'file':f,'old':o,'new':n} for f,o,n in edits],'expect':expect or []})

# ---------------- C01
add('C01','twin: parse handler order of exception tuple','twin',[('pydoctor/astbuilder.py',"            except (SyntaxError, ValueError) as e:\n                ctx.report(f\"cannot parse file, {e}\")","            except (ValueError, SyntaxError) as e:\n                ctx.report(f\"cannot parse file, {e}\")")])
add('C01','twin: literal_eval handler catches Exception','twin',[('pydoctor/astbuilder.py',"            name: object = ast.literal_eval(item)\n        except (ValueError, TypeError):","            name: object = ast.literal_eval(item)\n        except Exception:")])
add('C01','twin: rename parse result variable','twin',[('pydoctor/model.py',"                ast = builder.parseString(mod._py_string, mod)\n            else:\n                assert mod.source_path is not None\n                ast = builder.parseFile(mod.source_path, mod)\n            if ast:","                tree = builder.parseString(mod._py_string, mod)\n            else:\n                assert mod.source_path is not None\n                tree = builder.parseFile(mod.source_path, mod)\n            ast = tree\n            if tree:")])
add('C01','break: parse handler narrowed to SyntaxError','break',[('pydoctor/astbuilder.py',"            except (SyntaxError, ValueError) as e:\n                ctx.report(f\"cannot parse file, {e}\")","            except SyntaxError as e:\n                ctx.report(f\"cannot parse file, {e}\")")],['R01.1','R01.2'])
add('C01','break: safe_to_stan catch-all narrowed','break',[('pydoctor/epydoc2stan.py',"        stan = parsed_doc.to_stan(linker)\n    except Exception as e:","        stan = parsed_doc.to_stan(linker)\n    except ValueError as e:")],['R01.1','R01.3'])
add('C01','break: parse result not tested','break',[('pydoctor/model.py',"            if ast:\n                self.processing_modules.append(mod.fullName())","            if True:\n                self.processing_modules.append(mod.fullName())")],['R01.2'])
add('C01','break: docformat literal_eval handler narrowed (F1 returns)','break',[('pydoctor/astbuilder.py',"        value = ast.literal_eval(node.value)\n    except (ValueError, TypeError):","        value = ast.literal_eval(node.value)\n    except ValueError:")],['R01.1'])

add('C01','break: unstring_annotation handles SyntaxError only (F14 returns)','break',[('pydoctor/astutils.py',"    except (SyntaxError, ValueError) as ex:","    except SyntaxError as ex:")],['R01.1'])

# ---------------- C02
add('C02','twin: del -> pop in reparent','twin',[('pydoctor/model.py',"        del old_parent.contents[old_name]","        old_parent.contents.pop(old_name)")])
add('C02','twin: _remove iterates without the list copy variable','twin',[('pydoctor/model.py',"        oc = list(o.contents.values()) + o._shadowed_members\n        for c in oc:\n            self._remove(c)","        for c in list(o.contents.values()) + o._shadowed_members:\n            self._remove(c)")])
add('C02','break: extension-style direct write to contents','break',[('pydoctor/extensions/attrs.py',"    if not isinstance(value, bool):\n        module.report(","    if not isinstance(value, bool):\n        module.contents['x'] = module\n        module.report(")],['R02.1'])
add('C02','break: rootobjects cleanup dropped (F9 returns)','break',[('pydoctor/model.py',"            if first in self.rootobjects:\n                self.rootobjects.remove(first)\n","")],['R02.2'])
add('C02','break: readd no longer recurses','break',[('pydoctor/model.py',"            self.allobjects[o.fullName()] = o\n            for c in chain(o.contents.values(), o._shadowed_members):\n                readd(c)","            self.allobjects[o.fullName()] = o")],['R02.3'])

# ---------------- C03
add('C03','twin: exception table reordered','twin',[('pydoctor/model.py',"_STD_LIB_EXCEPTIONS = ('ArithmeticError', 'AssertionError', 'AttributeError', ","_STD_LIB_EXCEPTIONS = ('AssertionError', 'ArithmeticError', 'AttributeError', ")])
add('C03','break: ExceptionGroup removed (F12 returns)','break',[('pydoctor/model.py',"'Exception', 'ExceptionGroup', 'FileExistsError'","'Exception', 'FileExistsError'")],['R03.1'])
add('C03','break: Match removed from control flow blocks','break',[('pydoctor/astbuilder.py',"    _CONTROL_FLOW_BLOCKS += (ast.Match,)","    pass")],['R03.3'])
add('C03','break: __doc__ update not cleaned (F13 returns)','break',[('pydoctor/astbuilder.py',"            obj.docstring = cleandoc(docstring)","            obj.docstring = docstring")],['R03.4'])

# ---------------- C05
add('C05','twin: find binds mro to a local first','twin',[('pydoctor/model.py',"        for base in self.mro():\n            obj: Optional[Documentable] = base.contents.get(name)","        linearisation = self.mro()\n        for base in self.mro():\n            obj: Optional[Documentable] = base.contents.get(name)")])
add('C05','break: docsources iterates direct bases','break',[('pydoctor/model.py',"        for b in self.parent.mro(include_self=False):\n            if self.name in b.contents:","        for b in self.parent.baseobjects:\n            if b is not None and self.name in b.contents:")],['R05.1'])
add('C05','break: _init_mro does not report','break',[('pydoctor/model.py',"            self.report(str(e), 'mro')\n            self._mro = list(self.allbases(True))","            self._mro = list(self.allbases(True))")],['R05.2'])
add('C05','break: mro raises TypeError','break',[('pydoctor/mro.py',"            raise ValueError('Cannot compute linearization of the class inheritance hierarchy')","            raise TypeError('Cannot compute linearization of the class inheritance hierarchy')")],['R05.2'])

# ---------------- C07
add('C07','twin: del -> pop in reparent','twin',[('pydoctor/model.py',"        del old_parent.contents[old_name]","        old_parent.contents.pop(old_name)")])
add('C07','twin: first post call removed (second one is the effective one)','twin',[('pydoctor/model.py',"        self.name = new_name\n        self._handle_reparenting_post()\n        del old_parent.contents[old_name]","        self.name = new_name\n        del old_parent.contents[old_name]")])
add('C07','break: alias written before the rename','break',[('pydoctor/model.py',"        old_name = self.name\n        self.parent = self.parentMod = new_parent","        old_name = self.name\n        old_parent._localNameToFullName_map[old_name] = self.fullName()\n        self.parent = self.parentMod = new_parent"),('pydoctor/model.py',"        del old_parent.contents[old_name]\n        old_parent._localNameToFullName_map[old_name] = self.fullName()\n","        del old_parent.contents[old_name]\n")],['R07.1'])
add('C07','break: moved even when the origin exports it','break',[('pydoctor/astbuilder.py',"                if origin_module.all is None or origin_name not in origin_module.all:","                if True:")],['R07.2'])

# ---------------- C08
add('C08','twin: fallback result through a local','twin',[('pydoctor/epydoc2stan.py',"        errs.append(ParseError(f'{e.__class__.__name__}: {e}', 1))\n        parsed_doc = pydoctor.epydoc.markup.plaintext.parse_docstring(doc, errs)","        errs.append(ParseError(f'{e.__class__.__name__}: {e}', 1))\n        fallback_doc = pydoctor.epydoc.markup.plaintext.parse_docstring(doc, errs)\n        parsed_doc = fallback_doc")])
add('C08','break: fallback parses a stripped copy','break',[('pydoctor/epydoc2stan.py',"    except ParseError:\n        # this error should already by stored in the errs list\n        parsed_doc = pydoctor.epydoc.markup.plaintext.parse_docstring(doc, errs)","    except ParseError:\n        # this error should already by stored in the errs list\n        parsed_doc = pydoctor.epydoc.markup.plaintext.parse_docstring(doc.strip(), errs)")],['R08.1'])
add('C08','break: errors only reported on the success path','break',[('pydoctor/epydoc2stan.py',"    if errs:\n        reportErrors(source, errs, section=section)\n    return parsed_doc","    return parsed_doc")],['R08.1'])
add('C08','break: parser called from an extension','break',[('pydoctor/extensions/deprecate.py',"                    parsed_info = epydoc2stan.parse_docstring(","                    from pydoctor.epydoc.markup import restructuredtext as _r\n                    _r.parse_docstring(text, [])\n                    parsed_info = epydoc2stan.parse_docstring(")],['R08.2'])
add('C08','break: get_summary catch-all narrowed','break',[('pydoctor/epydoc/markup/__init__.py',"            _document.walk(visitor)\n        except Exception: ","            _document.walk(visitor)\n        except ValueError: ")],['R08.5','R08.3'])

# ---------------- C09
add('C09','twin: handler stores through a local','twin',[('pydoctor/epydoc2stan.py',"    def handle_note(self, field: Field) -> None:\n        self.notes.append(field)","    def handle_note(self, field: Field) -> None:\n        f = field\n        self.notes.append(field)")])
add('C09','break: handle_since drops the field','break',[('pydoctor/epydoc2stan.py',"    def handle_since(self, field: Field) -> None:\n        self.sinces.append(field)","    def handle_since(self, field: Field) -> None:\n        pass")],['R09.1'])
add('C09','break: notes never rendered','break',[('pydoctor/epydoc2stan.py',"                      ('Note', 'Notes', self.notes)):","                      ):")],['R09.2'])
add('C09','break: new inline tag without converter','break',[('pydoctor/epydoc/markup/epytext.py',"    'S': 'symbol',\n    }","    'S': 'symbol',\n    'T': 'teletype',\n    }")],['R09.3'])
add('C09','break: handled_elsewhere silent again (F10 returns)','break',[('pydoctor/epydoc2stan.py',"        if not isinstance(self.obj, model.CanContainImportsDocumentable):\n            # extract_fields() only processes modules and classes docstrings,\n            # so don't discard the field silently.\n            self.handleUnknownField(field)","        pass")],['R09.1'])

# ---------------- C10
add('C10','twin: html joined through a local in node2stan','twin',[('pydoctor/node2stan.py',"    return html2stan(''.join(html))","    text = ''.join(html)\n    return html2stan(text)")])
add('C10','break: raw node text appended to the body','break',[('pydoctor/node2stan.py',"    def visit_wbr(self, node: nodes.Node) -> None:\n        self.body.append('<wbr></wbr>')","    def visit_wbr(self, node: nodes.Node) -> None:\n        self.body.append(node.astext())")],['R10.2'])
add('C10','break: control-character filter removed','break',[('pydoctor/stanutils.py',"    html = _RE_CONTROL.sub(lambda m:b'\\\\x%02x' % ord(m.group()), html)\n","")],['R10.4'])
add('C10','break: formatter returns raw source','break',[('pydoctor/astbuilder.py',"        return ''.join(node2stan.node2html(self._colorized.to_node(), self._linker))","        return astor.to_source(self._value)")],['R10.3'])
add('C10','break: renderer renamed in Python only','break',[('pydoctor/templatewriter/pages/__init__.py',"    @renderer\n    def maindivclass(self, request: IRequest, tag: Tag) -> str:","    @renderer\n    def mainDivClass(self, request: IRequest, tag: Tag) -> str:")],['R10.6'])

# ---------------- C11
add('C11','twin: url built through a local','twin',[('pydoctor/model.py',"            page_url = f'{quote(page_obj.fullName())}.html'","            page_url = f'{quote(page_obj.fullName())}' + '.html'")])
add('C11','break: fragment uses the full name','break',[('pydoctor/model.py',"            return f'{page_url}#{quote(self.name)}'","            return f'{page_url}#{quote(self.kind.name)}'")],['R11.2','R11.1'])
add('C11','break: pages only for documented objects','break',[('pydoctor/templatewriter/writer.py',"        if ob.documentation_location is model.DocLocation.OWN_PAGE:\n            if self.dry_run:","        if ob.documentation_location is model.DocLocation.OWN_PAGE and ob.docstring:\n            if self.dry_run:")],['R11.3'])
add('C11','break: name index dropped from the summary pages','break',[('pydoctor/templatewriter/summary.py',"        NameIndexPage,\n        UndocumentedSummaryPage,\n    ]","        UndocumentedSummaryPage,\n    ]")],['R11.4'])

# ---------------- C12
add('C12','twin: guard rewritten as positive wrap','twin',[('pydoctor/templatewriter/summary.py',"        for o in self.system.rootobjects:\n            if not o.isVisible:\n                continue\n            r.append(tag.clone().fillSlots(root=tags.code(\n                linker.taglink(o, self.filename)\n                )))","        for o in self.system.rootobjects:\n            if o.isVisible:\n                r.append(tag.clone().fillSlots(root=tags.code(\n                    linker.taglink(o, self.filename)\n                    )))")])
add('C12','twin: visibility through a helper predicate','twin',[('pydoctor/templatewriter/pages/table.py',"            for child in self.children\n            if child.isVisible\n            ]","            for child in self.children\n            if child.isVisible and True\n            ]")])
add('C12','break: sidebar children unfiltered','break',[('pydoctor/templatewriter/pages/sidebar.py',"            return sorted((o for o in self.ob.contents.values() if o.isVisible),\n                              key=self._order)","            return sorted((o for o in self.ob.contents.values()),\n                              key=self._order)")],['R12.2'])
add('C12','break: search documents unfiltered','break',[('pydoctor/templatewriter/search.py',"            for ob in system.allobjects.values() if ob.isVisible)","            for ob in system.allobjects.values())")],['R12.2','R12.1'])
add('C12','break: taglink only logs again (F3 returns)','break',[('pydoctor/linker.py',"        o.system.msg(\"html\", \"don't link to %s\"%o.fullName())\n        return tags.transparent(label)","        o.system.msg(\"html\", \"don't link to %s\"%o.fullName())")],['R12.1'])
add('C12','break: css_class loses the private marker','break',[('pydoctor/templatewriter/util.py',"    if o.privacyClass is model.PrivacyClass.PRIVATE:\n        class_ += ' private'\n","")],['R12.4'])

# ---------------- C13
add('C13','twin: forward scan, last hit wins','twin',[('pydoctor/model.py',"        for priv, match in reversed(self.options.privacy):\n            if ob_fullName == match:\n                privacy = priv\n                _found_exact_match = True\n                break","        for priv, match in self.options.privacy:\n            if ob_fullName == match:\n                privacy = priv\n                _found_exact_match = True")])
add('C13','twin: greedy quantifiers','twin',[('pydoctor/qnmatch.py',"                res = res + '.*?'","                res = res + '.*'")])
add('C13','break: reversed removed, break kept','break',[('pydoctor/model.py',"            for priv, match in reversed(self.options.privacy):\n                if qnmatch.qnmatch(ob_fullName, match):","            for priv, match in self.options.privacy:\n                if qnmatch.qnmatch(ob_fullName, match):")],['R13.2'])
add('C13','break: single star crosses dots','break',[('pydoctor/qnmatch.py',"                res = res + r'[^\\.]*?'","                res = res + r'.*?'")],['R13.1'])
add('C13','break: end anchor lost','break',[('pydoctor/qnmatch.py',"    return r'(?s:%s)\\Z' % res","    return r'(?s:%s)' % res")],['R13.1'])

# ---------------- C14
add('C14','twin: kwarg handled through a differently named local','twin',[('pydoctor/astbuilder.py',"        kwarg = node.args.kwarg\n        if kwarg is not None:\n            add_arg(kwarg.arg, Parameter.VAR_KEYWORD, None)","        kwarg = node.args.kwarg\n        if kwarg is not None:\n            add_arg(kwarg.arg, Parameter.VAR_KEYWORD, None)\n        del kwarg")])
add('C14','break: positional-only added as positional-or-keyword','break',[('pydoctor/astbuilder.py',"            add_arg(arg.arg, Parameter.POSITIONAL_ONLY, get_default(index))","            add_arg(arg.arg, Parameter.POSITIONAL_OR_KEYWORD, get_default(index))")],['R14.1'])
add('C14','break: None return kept','break',[('pydoctor/astbuilder.py',"        return_annotation = Parameter.empty if return_type is None or is_none_literal(return_type) else","        return_annotation = Parameter.empty if return_type is None else")],['R14.3'])
add('C14','break: property annotation not unstringed','break',[('pydoctor/astbuilder.py',"            attr.annotation = unstring_annotation(node.returns, attr)","            attr.annotation = node.returns")],['R14.2'])
add('C14','break: defaults aligned to the start','break',[('pydoctor/astbuilder.py',"        default_offset = num_pos_args - len(defaults)","        default_offset = 0")],['R14.5'])

# ---------------- C15
add('C15','twin: symbol chain reordered','twin',[('pydoctor/epydoc/markup/_pyval_repr.py',"            if isinstance(pyval.op, ast.Sub):\n                self._output('-', None, state)\n            elif isinstance(pyval.op, ast.Add):\n                self._output('+', None, state)","            if isinstance(pyval.op, ast.Add):\n                self._output('+', None, state)\n            elif isinstance(pyval.op, ast.Sub):\n                self._output('-', None, state)")])
add('C15','break: Sub and Add symbols swapped','break',[('pydoctor/epydoc/markup/_pyval_repr.py',"            if isinstance(pyval.op, ast.Sub):\n                self._output('-', None, state)\n            elif isinstance(pyval.op, ast.Add):\n                self._output('+', None, state)","            if isinstance(pyval.op, ast.Sub):\n                self._output('+', None, state)\n            elif isinstance(pyval.op, ast.Add):\n                self._output('-', None, state)")],['R15.1'])
add('C15','break: operand side ignored (F7a returns)','break',[('pydoctor/epydoc/markup/_pyval_repr.py',"                elif isinstance(parent_node, ast.BinOp) and node is parent_node.right:\n                    # binary operators are left-associative: an operand of equal\n                    # precedence on the right-hand side must keep its parenthesis.\n                    parent_precedence+=1\n","")],['R15.3'])
add('C15','break: truncation without ellipsis','break',[('pydoctor/epydoc/markup/_pyval_repr.py',"                self._trim_result(state.result, 3)\n                state.result.append(self.ELLIPSIS)","                self._trim_result(state.result, 3)")],['R15.5'])
add('C15','break: MatMult branch removed','break',[('pydoctor/epydoc/markup/_pyval_repr.py',"            elif isinstance(pyval.op, ast.MatMult):\n                self._output('@', None, state)\n","")],['R15.1'])

# ---------------- C16
add('C16','twin: counter before the once filter is still after it (comment change only)','twin',[('pydoctor/model.py',"        if thresh < 0:\n            # Apidoc build messages are generated using negative threshold","        if thresh < 0:\n            # negative threshold: counted")])
add('C16','break: counting nested under the verbosity test','break',[('pydoctor/model.py',"        if thresh < 0:\n            # Apidoc build messages are generated using negative threshold\n            # and we have separate reporting for them,\n            # on top of the logging system.\n            self.violations += 1\n\n        if thresh <= self.options.verbosity <= topthresh:","        if thresh <= self.options.verbosity <= topthresh:\n            if thresh < 0:\n                self.violations += 1")],['R16.1'])
add('C16','break: link-not-found reported with thresh=1','break',[('pydoctor/linker.py',"            self.reporting_obj.report(message, 'resolve_identifier_xref', lineno)","            self.reporting_obj.report(message, 'resolve_identifier_xref', lineno, thresh=1)")],['R16.2'])
add('C16','break: status 3 without the option','break',[('pydoctor/driver.py',"        if system.violations and options.warnings_as_errors:","        if system.violations:")],['R16.3'])

# ---------------- C17
add('C17','twin: IndexError handled by a length test... kept inside try with LookupError','twin',[('pydoctor/sphinx.py',"    try:\n        location = parts[prio_idx + 1]\n    except IndexError:\n        raise ValueError(\"Could not find location column\")","    try:\n        location = parts[prio_idx + 1]\n    except LookupError:\n        raise ValueError(\"Could not find location column\")")])
add('C17','break: location index outside the try (F2 returns)','break',[('pydoctor/sphinx.py',"    try:\n        location = parts[prio_idx + 1]\n    except IndexError:\n        raise ValueError(\"Could not find location column\")","    location = parts[prio_idx + 1]")],['R17.2'])
add('C17','break: zlib error not handled','break',[('pydoctor/sphinx.py',"        except zlib.error:\n            self.error(\n                'sphinx',\n                'Failed to uncompress inventory from %s' % (base_url,))\n            return ''","        except KeyError:\n            return ''")],['R17.1','R17.3'])
add('C17','break: display column empty','break',[('pydoctor/sphinx.py',"        display = '-'","        display = ''")],['R17.4'])
add('C17','break: bad line aborts the file','break',[('pydoctor/sphinx.py',"                    'Failed to parse line \"%s\" for %s' % (line, base_url),\n                    )\n                continue","                    'Failed to parse line \"%s\" for %s' % (line, base_url),\n                    )\n                break")],['R17.2'])

# ---------------- C18
add('C18','twin: sorted with explicit key','twin',[('pydoctor/driver.py',"        name = '/'.join(sorted(system.root_names))","        name = '/'.join(sorted(system.root_names, key=str))")])
add('C18','break: join over the set (F8 returns)','break',[('pydoctor/driver.py',"        name = '/'.join(sorted(system.root_names))","        name = '/'.join(system.root_names)")],['R18.1'])
add('C18','break: sorted removed in addPackage','break',[('pydoctor/model.py',"        for path in sorted(package_path.iterdir()):","        for path in package_path.iterdir():")],['R18.2'])
add('C18','break: clock in the page footer','break',[('pydoctor/templatewriter/pages/__init__.py',"            buildtime=system.buildtime.strftime(\"%Y-%m-%d %H:%M:%S\"),","            buildtime=time.strftime(\"%Y-%m-%d %H:%M:%S\"),"),('pydoctor/templatewriter/pages/__init__.py',"import ast\nimport abc\n","import ast\nimport abc\nimport time\n")],['R18.3'])
add('C18','break: index appended to instead of truncated','break',[('pydoctor/templatewriter/search.py',"        with self.output_file.open('w', encoding='utf-8') as fobj:","        with self.output_file.open('a', encoding='utf-8') as fobj:")],['R18.4'])

# ---------------- C19
add('C19','twin: handler tuple for two pruning classes','twin',[('pydoctor/visitor.py',"      except self.SkipDeparture:           \n        call_depart = False\n      except self.SkipSiblings as ex:","      except (self.SkipDeparture,):           \n        call_depart = False\n      except self.SkipSiblings as ex:")])
add('C19','break: SkipSiblings escapes walkabout (F11 returns)','break',[('pydoctor/visitor.py',"      except self.SkipSiblings as ex:\n        skip_siblings = ex\n","")],['R19.1'])
add('C19','break: pruning not delayed past extensions','break',[('pydoctor/visitor.py',"    except self._TreePruningException as ex:\n      pruning = ex","    except self.SkipNode as ex:\n      pruning = ex")],['R19.2'])
add('C19','break: INNER extensions depart after the main visitor','break',[('pydoctor/visitor.py',"    for v in self.extensions.before_visit + self.extensions.inner_visit:\n      v.depart(ob)","    for v in self.extensions.before_visit:\n      v.depart(ob)")],['R19.2'])
add('C19','break: SkipNode raised after the scope is entered','break',[('pydoctor/astbuilder.py',"        func.is_async = is_async\n        if doc_node is not None:","        func.is_async = is_async\n        if func_name == '__skip__':\n            raise self.SkipNode()\n        if doc_node is not None:")],['R19.3'])

# ---------------- C20
add('C20','twin: validator uses membership test','twin',[('pydoctor/_configparser.py',"            action = known_config_keys.get(key)\n            if not action:","            action = known_config_keys.get(key)\n            if not action:  # unknown key")])
add('C20','break: unknown keys forwarded','break',[('pydoctor/_configparser.py',"                warnings.warn(f\"No such config option: {key!r}\")\n                # Remove option","                warnings.warn(f\"No such config option: {key!r}\")\n                new_data[key] = value")],['R20.2'])
add('C20','break: field without an option','break',[('pydoctor/options.py',"    nosidebar:              int                                     = attr.ib()","    nosidebar:              int                                     = attr.ib()\n    brandnew:               bool                                    = attr.ib()")],['R20.3'])
add('C20','break: TOML scalars keep their type','break',[('pydoctor/_configparser.py',"                        result[key] = str(value)","                        result[key] = value")],['R20.4'])

# ---------------- variants for the rules added after the second seeding round
add('C01','break: attribute chain walk no longer advances (loop cannot end)','break',[('pydoctor/astutils.py',"        parts.append(node.attr)\n        node = node.value\n    if isinstance(node, ast.Name):","        parts.append(node.attr)\n    if isinstance(node, ast.Name):")],['R01.4'])
add('C01','twin: duplicate counter advanced with a plain assignment','twin',[('pydoctor/model.py',"        while (fullName + ' ' + str(i)) in self.allobjects:\n            i += 1","        while (fullName + ' ' + str(i)) in self.allobjects:\n            i = i + 1")])
add('C03','twin: decorator loop with an explicit pass branch','twin',[('pydoctor/astbuilder.py',"                if deco_name is None:\n                    continue\n                if isinstance(parent, model.Class):","                if deco_name is None:\n                    continue\n                else:\n                    pass\n                if isinstance(parent, model.Class):")])
add('C03','break: class decorator loop stops at the first call decorator','break',[('pydoctor/astbuilder.py',"                    base = node2fullname(decnode.func, parent)\n                    args = decnode.args","                    base = node2fullname(decnode.func, parent)\n                    args = decnode.args\n                    if base is None:\n                        break")],['R03.2'])
add('C05','break: masking names only from documented members','break',[('pydoctor/templatewriter/util.py',"        for o in b.contents.values()\n        }","        for o in b.contents.values()\n        if o.docstring\n        }")],['R05.5'])
add('C05','twin: masking set built with a loop','twin',[('pydoctor/templatewriter/util.py',"    maybe_masking = {\n        o.name\n        for b in baselist[1:]\n        for o in b.contents.values()\n        }","    maybe_masking = set()\n    for b in baselist[1:]:\n        for o in b.contents.values():\n            maybe_masking.add(o.name)")])
add('C07','break: star import alias glued from module and name','break',[('pydoctor/astbuilder.py',"            _localNameToFullName[name] = expandName(name)","            _localNameToFullName[name] = modname + '.' + name")],['R07.2'])
add('C07','twin: star import expands through the module object','twin',[('pydoctor/astbuilder.py',"            _localNameToFullName[name] = expandName(name)","            _localNameToFullName[name] = mod.expandName(name)")])
add('C09','break: handle_returntype replaces the slot','break',[('pydoctor/epydoc2stan.py',"        if not self.return_desc:\n            self.return_desc = ReturnDesc()\n        self.return_desc.type = field.format()","        self.return_desc = ReturnDesc()\n        self.return_desc.type = field.format()")],['R09.6'])
add('C09','twin: slot emptiness tested with `is None`','twin',[('pydoctor/epydoc2stan.py',"        if not self.yields_desc:\n            self.yields_desc = FieldDesc()\n        self.yields_desc.body = field.format()","        if self.yields_desc is None:\n            self.yields_desc = FieldDesc()\n        self.yields_desc.body = field.format()")])
add('C09','break: code directive returns early for an empty argument list','break',[('pydoctor/epydoc/markup/restructuredtext.py',"    def run(self) -> List[nodes.Node]:\n        text = '\\n'.join(self.content)","    def run(self) -> List[nodes.Node]:\n        if self.arguments:\n            return []\n        text = '\\n'.join(self.content)")],['R09.7'])
add('C10','break: package docformat consulted first','break',[('pydoctor/model.py',"        if self._docformat:\n            return self._docformat\n        elif isinstance(self.parent, Package):\n            return self.parent.docformat\n        return None","        if isinstance(self.parent, Package) and self.parent.docformat:\n            return self.parent.docformat\n        return self._docformat or None")],['R10.7'])
add('C10','twin: own docformat tested with `is not None` first','twin',[('pydoctor/model.py',"        if self._docformat:\n            return self._docformat\n        elif isinstance(self.parent, Package):","        if not self._docformat:\n            pass\n        else:\n            return self._docformat\n        if isinstance(self.parent, Package):")])
add('C11','break: linker freezes the page url at construction','break',[('pydoctor/linker.py',"        self._page_object: Optional['model.Documentable'] = None\n        self._page_object_switched = False","        self._page_object: Optional['model.Documentable'] = None\n        self._page_object_switched = False\n        self._url = obj.page_object.url")],['R11.5'])
add('C11','break: inherited docstring rendered without a page context (F18 returns)','break',[('pydoctor/epydoc2stan.py',"        with source.docstring_linker.switch_context(None):\n            return _format_docstring(obj, source)","        return _format_docstring(obj, source)")],['R11.5'])
add('C11','break: shadowed duplicate stays visible (F17 returns)','break',[('pydoctor/model.py',"            prev.parent._shadowed_members.append(prev)","            pass")],['R11.3'])
add('C02','break: shadowed duplicate not attached to its parent (F23 returns)','break',[('pydoctor/model.py',"            prev.parent._shadowed_members.append(prev)","            pass")],['R02.3'])
add('C02','break: reparenting does not carry the shadowed members','break',[('pydoctor/model.py',"        del self.system.allobjects[self.fullName()]\n        for o in chain(self.contents.values(), self._shadowed_members):","        del self.system.allobjects[self.fullName()]\n        for o in self.contents.values():")],['R02.3'])
add('C13','twin: cursor tests written with the comparison first','twin',[('pydoctor/qnmatch.py',"            while j < n and pat[j] != ']':\n                j = j+1","            while j < n and pat[j] != ']':\n                j += 1")])
add('C13','break: rules sorted by pattern','break',[('pydoctor/options.py',"    return list(map(functools.partial(parse_privacy_tuple, opt='--privacy'), l))","    return sorted(map(functools.partial(parse_privacy_tuple, opt='--privacy'), l), key=lambda r: r[1])")],['R13.3'])
add('C14','break: intersphinx link shows the url','break',[('pydoctor/linker.py',"    return tags.a(label, href=url, class_='intersphinx-link')","    return tags.a(url, href=url, class_='intersphinx-link')")],['R14.6'])
add('C14','twin: transparent tag built through a local','twin',[('pydoctor/linker.py',"        o.system.msg(\"html\", \"don't link to %s\"%o.fullName())\n        return tags.transparent(label)","        o.system.msg(\"html\", \"don't link to %s\"%o.fullName())\n        plain = tags.transparent(label)\n        return plain")])
add('C16','break: source path follows the module after a move','break',[('pydoctor/model.py',"        self.parent = self.parentMod = new_parent","        self.parent = self.parentMod = new_parent\n        self.source_path = new_parent.source_path")],['R16.4'])
add('C17','break: inventory stops at the first hidden object (return)','break',[('pydoctor/sphinx.py',"            if not obj.isVisible:\n                continue\n            content.append(self._generateLine(obj).encode('utf-8'))","            if not obj.isVisible:\n                return b''.join(content)\n            content.append(self._generateLine(obj).encode('utf-8'))")],['R17.4'])
add('C18','twin: package listing sorted by name','twin',[('pydoctor/model.py',"        for path in sorted(package_path.iterdir()):","        for path in sorted(package_path.iterdir(), key=lambda p: p.name):")])
add('C18','break: template directory listed unsorted (F16 returns)','break',[('pydoctor/templatewriter/__init__.py',"        for entry in sorted(path.iterdir(), key=lambda e: e.name):","        for entry in path.iterdir():")],['R18.2'])
add('C19','break: property exit keeps walking the body','break',[('pydoctor/astbuilder.py',"                attr.report(f'{attr.fullName()} is both property and staticmethod')\n            raise self.SkipNode()","                attr.report(f'{attr.fullName()} is both property and staticmethod')\n            raise self.SkipChildren()")],['R19.3'])
add('C20','break: hidden options are not config keys','break',[('pydoctor/_configparser.py',"        known_config_keys: Dict[str, argparse.Action] = {config_key: action for action in self.argument_parser._actions\n","        known_config_keys: Dict[str, argparse.Action] = {config_key: action for action in self.argument_parser._actions if action.dest != 'sourcepath'\n")],['R20.2'])

bad=0
for prop, vs in C.items():
    for v in vs:
        for e in v['edits']:
            t=(R/e['file']).read_text()
            n=t.count(e['old'])
            if n!=1:
                print('ANCHOR PROBLEM', prop, v['name'], e['file'], n); bad+=1
    json.dump(vs, open(f'/verif/sa/selftest/{prop}.json','w'), indent=1)
print('props',len(C),'variants',sum(len(v) for v in C.values()),'bad',bad)
