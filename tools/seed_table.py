#!/usr/bin/env python3
"""Prints the markdown tables of DESIGN.md section 8 from /verif/seeded/*/meta.json (usage: seed_table.py r1|...|r6; r4, r5 and r6 add the first-measurement column)."""
import json
import re
import sys
from pathlib import Path

rnd = sys.argv[1] if len(sys.argv) > 1 else 'r1'
rows = []
for d in sorted((Path(__file__).resolve().parent.parent / 'seeded').iterdir()):
    if not (d / 'meta.json').exists() or not (d / 'patch.diff').exists():
        continue
    tag = 'r6' if '-r6-' in d.name else 'r5' if '-r5-' in d.name else 'r4' if '-r4-' in d.name else 'r3' if '-r3-' in d.name else 'r2' if '-r2-' in d.name else 'r1'
    if tag != rnd:
        continue
    m = json.loads((d / 'meta.json').read_text())
    files = sorted(set(re.findall(r'^\+\+\+ b/pydoctor/(\S+)', (d / 'patch.diff').read_text(), flags=re.M)))
    if m.get('now_twin'):
        cb = f"behaviour-preserving since {m['now_twin']}: kept as a twin, silent"
    else:
        cb = '; '.join(f"{k} {'/'.join(v)}" for k, v in sorted(m['caught_by'].items())) or '**not caught**'
    fm = m.get('first_measurement')
    first = ('; '.join(f"{k} {'/'.join(v)}" for k, v in sorted(fm['caught_by'].items())) or '**not caught**') if fm else None
    rows.append((d.name, m['property'], ', '.join(files), cb, first))
if any(r[4] is not None for r in rows):
    print('| change | breaks | files | first measurement | after strengthening |\n|---|---|---|---|---|')
    for r in rows:
        print(f'| {r[0]} | {r[1]} | {r[2]} | {r[4]} | {r[3]} |')
else:
    print('| change | breaks | files | caught by (property rule) |\n|---|---|---|---|')
    for r in rows:
        print(f'| {r[0]} | {r[1]} | {r[2]} | {r[3]} |')
