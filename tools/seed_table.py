#!/usr/bin/env python3
"""Prints the markdown tables of DESIGN.md section 8 from /verif/seeded/*/meta.json (usage: seed_table.py r1|r2|r3)."""
import json
import re
import sys
from pathlib import Path

rnd = sys.argv[1] if len(sys.argv) > 1 else 'r1'
rows = []
for d in sorted((Path(__file__).resolve().parent.parent / 'seeded').iterdir()):
    if not (d / 'meta.json').exists() or not (d / 'patch.diff').exists():
        continue
    tag = 'r3' if '-r3-' in d.name else 'r2' if '-r2-' in d.name else 'r1'
    if tag != rnd:
        continue
    m = json.loads((d / 'meta.json').read_text())
    files = sorted(set(re.findall(r'^\+\+\+ b/pydoctor/(\S+)', (d / 'patch.diff').read_text(), flags=re.M)))
    if m.get('now_twin'):
        cb = f"behaviour-preserving since {m['now_twin']}: kept as a twin, silent"
    else:
        cb = '; '.join(f"{k} {'/'.join(v)}" for k, v in sorted(m['caught_by'].items())) or '**not caught**'
    rows.append((d.name, m['property'], ', '.join(files), cb))
print('| change | breaks | files | caught by (property rule) |\n|---|---|---|---|')
for r in rows:
    print(f'| {r[0]} | {r[1]} | {r[2]} | {r[3]} |')
