#!/usr/bin/env python3
"""
Run every check against every seeded change and record which rules catch it.

usage: seed_matrix.py [--import /tmp/seedout] [--update]
  --import DIR : copy verified mutants DIR/<Cnn>/<k>/{patch.diff,demo.py,notes.md} into /verif/seeded/<Cnn>-<k>/ (needs
                 /tmp/verify_all.log lines `RESULT <dir> demo_clean=0 demo_mutant=1 suite='11 failed, 1322 passed ...'`)
  --update     : rewrite caught_by in every /verif/seeded/*/meta.json from a fresh run
Each change is applied with `patch -p1` to a scratch copy of /repo/pydoctor under $TMPDIR (removed afterwards).
"""
import concurrent.futures
import json
import os
import re
import shutil
import subprocess
import sys
import tempfile
from pathlib import Path

VERIF = Path(__file__).resolve().parent.parent
SEEDED = VERIF / 'seeded'
PROPS = [json.loads(l)['id'] for l in (VERIF / 'properties.jsonl').read_text().splitlines() if l.strip()]
CHECKS = [p for p in PROPS if (VERIF / 'sa' / 'rules' / f'{p.lower()}.py').exists()]


def copy_repo(dst: Path) -> None:
    shutil.copytree('/repo/pydoctor', dst / 'pydoctor',
                    ignore=lambda d, names: [n for n in names if n in ('__pycache__', 'test') or n.endswith('.pyc')])


def run_one(d: Path) -> dict:
    tmp = Path(tempfile.mkdtemp(prefix='pydoctor-verif-seed-', dir=os.environ.get('TMPDIR') or None))
    out = {}
    try:
        copy_repo(tmp)
        p = subprocess.run(['patch', '-p1', '-s', '-f', '--no-backup-if-mismatch', '-d', str(tmp), '-i', str(d / 'patch.diff')],
                           capture_output=True, text=True)
        if p.returncode != 0:
            return {'_error': 'patch does not apply: ' + p.stdout[-200:]}
        for c in CHECKS:
            r = subprocess.run([str(VERIF / 'check'), c, '--repo', str(tmp), '--no-evidence'], capture_output=True, text=True)
            fired = sorted(set(re.findall(r'^FAIL (\S+) ', r.stdout, flags=re.M)))
            if r.returncode == 1 and fired:
                out[c] = fired
            elif r.returncode not in (0, 1):
                out.setdefault('_analysis_errors', {})[c] = re.findall(r'^ANALYSIS-ERROR .*$', r.stdout, flags=re.M)[:2]
        return out
    finally:
        shutil.rmtree(tmp, ignore_errors=True)


def main() -> None:
    args = sys.argv[1:]
    if '--import' in args:
        src = Path(args[args.index('--import') + 1])
        log = ''.join(Path(l).read_text() for l in ('/tmp/verify_all.log', '/tmp/verify3.log', '/tmp/verify4.log', '/tmp/verify5.log', '/tmp/verify6.log') if Path(l).exists())
        for pd in sorted(src.glob('C*/[0-9]')):
            m = re.search(rf"RESULT {re.escape(str(pd))} demo_clean=(\d+) demo_mutant=(\d+) suite='([^']*)'", log)
            if not m:
                print('not verified, skipped:', pd)
                continue
            clean, mut, suite = int(m.group(1)), int(m.group(2)), m.group(3)
            if clean != 0 or mut == 0 or '1322 passed' not in suite or '11 failed' not in suite:
                print('verification failed, skipped:', pd, m.groups())
                continue
            tag = '-r6' if 'seedout6' in str(src) else '-r5' if 'seedout5' in str(src) else '-r4' if 'seedout4' in str(src) else '-r3' if 'seedout3' in str(src) else '-r2' if 'seedout2' in str(src) else ''
            dst = SEEDED / f'{pd.parent.name}{tag}-{pd.name}'
            dst.mkdir(parents=True, exist_ok=True)
            for fn in ('patch.diff', 'demo.py', 'notes.md'):
                if (pd / fn).exists():
                    shutil.copy(pd / fn, dst / fn)
            notes = (pd / 'notes.md').read_text() if (pd / 'notes.md').exists() else ''
            meta = {
                'property': pd.parent.name,
                'origin': 'independent fault-seeding sub-agent given only the property text and a scratch worktree of /repo' + (' (round 6: strict protocol again, after the round-5 strengthening)' if 'seedout6' in str(src) else ' (round 5: same strict protocol as round 4, launched against the final rule set and the tree after ~115 repairs)' if 'seedout5' in str(src) else ' (round 4: launched after the second strengthening pass of round 3 and the repairs up to F66; given nothing but the property text, so repeats of earlier rounds are possible)' if 'seedout4' in str(src) else' (round 3: launched after the round-2 strengthening and ~40 fix: commits, given the patches of rounds 1 and 2 in order not to repeat them)' if 'seedout3' in str(src) else
                                                                                                                                ' (round 2: launched after the checks were finished, asked to avoid the most obvious fault sites)' if 'seedout2' in str(src) else ''),
                'needs_to_manifest': _needs(notes),
                'confirmed': {
                    'patch_applies': True,
                    'demo_exit_unchanged_tree': clean,
                    'demo_exit_with_change': mut,
                    'test_suite_with_change': suite,
                    'how': 'tools/verify_seed.sh on a scratch worktree of /repo: cp demo.py into the tree, run it, git apply patch.diff, run it '
                           'again, run the full suite (pytest -n 8), restore the tree',
                },
                'caught_by': {},
            }
            old = dst / 'meta.json'
            if old.exists():
                try:
                    meta['caught_by'] = json.loads(old.read_text()).get('caught_by', {})
                except Exception:
                    pass
            (dst / 'meta.json').write_text(json.dumps(meta, indent=1))
            print('imported', dst.name)
    if '--update' in args or '--import' in args:
        dirs = sorted(d for d in SEEDED.iterdir() if (d / 'patch.diff').exists())
        with concurrent.futures.ThreadPoolExecutor(max_workers=8) as ex:
            res = list(ex.map(run_one, dirs))
        for d, r in zip(dirs, res):
            meta = json.loads((d / 'meta.json').read_text())
            meta['caught_by'] = {k: v for k, v in r.items() if not k.startswith('_')}
            if '_error' in r:
                meta['caught_by_error'] = r['_error']
            (d / 'meta.json').write_text(json.dumps(meta, indent=1))
            if meta.get('now_twin'):
                print(d.name, meta['property'], 'behaviour-preserving since', meta['now_twin'], '- fired:', meta['caught_by'] or 'nothing (as it must)')
                continue
            print(d.name, meta['property'], 'caught by', meta['caught_by'] or 'NOTHING', r.get('_analysis_errors', ''))


def _needs(notes: str) -> str:
    for line in notes.splitlines():
        l = line.strip().lstrip('-* ')
        if re.search(r'\b(needs?|trigger|manifest|only (shows|when))\b', l, flags=re.I) and len(l) > 25:
            return l[:400]
    return notes.strip().splitlines()[0][:300] if notes.strip() else ''


if __name__ == '__main__':
    main()
