#!/usr/bin/env python3
"""Regenerates /verif/MANIFEST.json from the per-property table below (kept in one place so that the
manifest is always valid and in step with the rule modules that exist)."""
import json
import os
from pathlib import Path

HERE = Path(__file__).resolve().parent.parent

CLAIMED = {
    'C01': dict(
        technique='exception-escape (effect) analysis over a resolved call graph + CFG shape rules',
        text='Static: for every curated exception source (library partial operations on source-derived data, declared raisers, '
             'explicit raise statements) reachable from the run phases, a handler subsumes it on every call path (R01.1); the parse '
             'barrier and the four documented catch-all barriers are shaped as barriers (R01.2, R01.3). Decides exception escapes '
             'from the tables only, not termination nor implicit exceptions.',
        note='Trusts the source tables in sa/tables.py (each entry confirmed by reading), the annotation-driven callee resolution '
             '(over-approximated by name where the receiver type is unknown) and the models of twisted flattening / docutils walks.',
        ref='DESIGN.md section 3, C01'),
}

CLAIMED['C12'] = dict(
    technique='who-may-read + guard/dominance rules on the statement CFG of the writers',
    text='Static: every read of a documentable URL and every href value is classified (page context / visibility guarded / built by '
         'linker.taglink behind a visibility test whose failing branch returns a non-link) (R12.1); every primary enumeration of model '
         'objects in the listing producers (templatewriter/**, SphinxInventoryWriter) is visibility filtered by an accepted idiom (R12.2); '
         'isVisible combines own privacy with the parent (R12.3); every listing-entry constructor emits the private marker (R12.4). '
         'Decides the guard structure on all present and future call sites, not the rendered output.',
    note='Trusts that pages/child blocks are only built for objects that passed the guards checked here, that templates do not enumerate '
         'objects themselves, and the reasoned exception table NOT_A_LISTING (5 loops that compute names/booleans only).',
    ref='DESIGN.md section 3, C12')

CLAIMED['C08'] = dict(
    technique='barrier-shape rules (CFG must-pass-through, def-use) + per-call-site upward exception propagation on the call graph',
    text='Static: the parse barrier invokes the parser only inside a catch-all whose handlers rebuild the result from the plaintext parser '
         'applied to the unmodified docstring parameter, record a ParseError and report on every path (R08.1); format parsers are only '
         'called from the barrier or inside the markup layer (R08.2); for every to_stan()/to_node() call site the failure it can produce is '
         'stopped by a handler on every call path to a run entry (R08.3); safe_to_stan fallbacks cannot raise (R08.4); summary/toc guards '
         '(R08.5) and once-per-object reporting (R08.6). Decides the barrier discipline, not parser termination nor the text shown.',
    note='Assumes non-total to_stan() implementations may raise any Exception and to_node() NotImplementedError; trusts the call graph '
         'models (fallback= callables, renderers) and that plaintext parsing/rendering is total.',
    ref='DESIGN.md section 3, C08')

CLAIMED['C17'] = dict(
    technique='exception-escape analysis at the reader boundary + subscript-protection and f-string template rules',
    text='Static: no curated exception source escapes SphinxInventory.update and the HTTP fetch is contained (R17.1); every index into the '
         'split inventory line is inside a try converting IndexError or provably below a valid index, only ValueError leaves the line parser '
         'and the caller reports and skips that line (R17.2); each decoding stage reports and yields an empty payload (R17.3); the line '
         'template of the writer has exactly the columns the reader requires and one line is produced per visible object over the whole '
         'subtree (R17.4). Decides reader totality for the listed failure classes and column agreement, not a real round trip.',
    note='Trusts the exception tables (zlib.error, UnicodeDecodeError, ValueError/IndexError at the analysed sites) and zlib/Sphinx themselves.',
    ref='DESIGN.md section 3, C17')

CLAIMED['C18'] = dict(
    technique='nondeterminism taint: typed set/listing/clock sources classified by their consuming context',
    text='Static: every set-typed expression (literals, comprehensions, set()/frozenset(), Set-annotated names, attributes and parameters, '
         'functions/properties returning a set such as System.root_names) is consumed order-insensitively (membership, len, sorted, set '
         'algebra, len==1-guarded element access); no id()/hash()/random values (R18.1); directory listings of the input are sorted '
         '(R18.2); clock reads only reach System.buildtime, which SOURCE_DATE_EPOCH/--buildtime override before output is produced, or log '
         'messages (R18.3); the writers open output with truncating modes and replace the root symlink (R18.4). Each rule is a necessary '
         'condition of byte-identical output; equality of two real output trees is not decided.',
    note='Trusts dict/list insertion order, stability of sorted(), and the reasoned table of listings of pydoctor\'s own resource directories.',
    ref='DESIGN.md section 3, C18')

CLAIMED['C19'] = dict(
    technique='typestate over exception classes on a hand-built statement CFG + pairing / who-may-call rules',
    text='Static: in Visitor.walkabout every pruning exception class that visit() can raise is received by a handler of the same activation '
         'from which every path passes depart(); SkipSiblings is re-raised only after depart (R19.1); Visitor.visit delays every pruning '
         'class past the AFTER/INNER extensions and re-raises it last, visit/depart call the four extension timings in the documented order '
         'and on every path (R19.2); in the AST builder every visit_K that enters a scope has a depart_K that leaves it, no pruning '
         'exception can follow a push, push/pop move the stack by one, extensions pair their own push/pop locally and raise no pruning '
         'exception (R19.3). Decides the control-flow shape for all trees and prunings at once; the skip-flag semantics are not decided.',
    note='Trusts the hand-built CFG (exception edges are resolved per handler class for the pruning family) and that third-party extensions '
         'are out of scope.',
    ref='DESIGN.md section 3, C19')

CLAIMED['C15'] = dict(
    technique='table extraction checked against the interpreter\'s parser, sibling cross-check, backward dependence slice, CFG must-pass-through',
    text='Static: the class->symbol tables of the unary/binary/boolean renderers agree with what ast.parse yields for each symbol, '
         'exhaustively over the operator classes of the running interpreter (R15.1); live-value and AST container branches agree on '
         'prefix/suffix and on count-dependence of the suffix (R15.2; the one-element AST tuple is a listed known finding); the slice of '
         'the parenthesis decision depends on the operand side, on ** and on BoolOp parents, type-based precedences are position guarded '
         '(R15.3); the dispatch ends in the generic fallback (R15.4); truncation and wrapping are always marked and the control-flow '
         'exceptions cannot be swallowed (R15.5); control characters are re-spelled as their hex escape (R15.6). Decides tables and '
         'decision dependences, not the precedence values nor the text of a rendered expression.',
    note='Trusts astor.op_util precedences and CPython\'s ast.parse as the oracle for operator symbols.',
    ref='DESIGN.md section 3, C15')

CLAIMED['C10'] = dict(
    technique='who-may-call sink census + value-provenance classification + must-pass-through + template XML/renderer census',
    text='Static: strings are parsed as markup only in html2stan and template loading, html2stan has exactly two callers, tag and '
         'attribute names are constants (R10.1); every value appended to HTMLTranslator.body is a literal or comes from '
         'flatten/starttag/encode/attval (R10.2); every default/annotation handed to inspect.Signature is Parameter.empty or an escaping '
         'formatter whose __repr__ only returns translator output, and str(signature) is re-parsed only inside the catch-all (R10.3); '
         'control characters are filtered on every path before the XML parser (R10.4); every field interpolated into the reST deprecation '
         'templates is validated or neutralised (R10.5); all theme templates parse as XML and their t:render/t:slot names exist (R10.6). '
         'Decides where pydoctor itself turns strings into markup; well-formedness of what docutils/twisted emit is trusted.',
    note='Trusted base: twisted.web.template escapes text and attribute values; docutils encode/attval/starttag escape; AST identifiers '
         'contain no markup characters.',
    ref='DESIGN.md section 3, C10')

CLAIMED['C02'] = dict(
    technique='receiver-typed who-may-write census against an owner table + CFG pairing / dominance rules',
    text='Static: allobjects, contents, rootobjects, subclasses, implementedby_directly, name, parent and unprocessed_modules are written '
         'only by their owner functions; subclasses is built as the exact inverse of the final baseobjects (after _init_mro) and '
         'implementedby_directly is appended once under a `not in` test (R02.1); a function that unregisters an object without '
         're-registering it also removes it from its container on every path (R02.2); every re-keying routine recurses over contents and '
         'keys by fullName(), the superseded duplicate gets a key found free by a loop, in the order unregister-rename-register (R02.3); '
         'kind by place (R02.4). Decides that only the owners touch the structures and the shape of the owners, not the heap invariants '
         'after arbitrary histories.',
    note='Trusts annotation-driven receiver typing (untyped receivers count only for the distinctive field names).',
    ref='DESIGN.md section 3, C02')

CLAIMED['C03'] = dict(
    technique='table extraction compared with the running interpreter (builtins, ast), sibling comparison, who-may-write census',
    text='Static, narrow: the builtin exception table covers every BaseException subclass of the interpreter (R03.1); decorator and '
         'old-style wrapping map classmethod/staticmethod to the same kinds, sync/async function visitors differ only in is_async, '
         'definitions nested in functions are skipped alike (R03.2); the control-flow block table equals the statement classes of the '
         'interpreter that own a body (R03.3); Documentable.docstring is only assigned cleaned, live or empty values (R03.4); the '
         '__main__ guard is recognised by a single == only (R03.5); an existing Function is re-entered only for overloads (R03.6). '
         'Decides these tables and shape facts only; the differential statement against what CPython binds is not decided.',
    note='Oracle for the language: the interpreter running the check (builtins, ast). The body of the property needs execution against '
         'CPython and is outside static reach (DESIGN.md section 5).',
    ref='DESIGN.md section 3, C03')

CLAIMED['C05'] = dict(
    technique='who-uses census against consumer tables + handler-shape and call-site rules',
    text='Static: every function that attributes members along the hierarchy iterates Class.mro(); allbases() is only called from the two '
         'documented fallbacks and baseobjects is iterated only for direct-base purposes (R05.1); the linearisation code raises only '
         'ValueError, Class._init_mro handles it, reports it against the class (section mro) and still stores a linearisation; '
         'linearisations are computed only from defaultPostProcess, which is registered and runs after the drain loop (R05.2); mro() '
         'returns the stored list, starting with the class, and the merge receives the local precedence list (R05.3); bases are resolved '
         'in the scope enclosing the class in both passes and generic subscripts are stripped from every base (R05.4). Does not decide '
         'that mro._merge is C3.',
    note='Trusts the consumer tables (confirmed by reading) and that mro._merge implements C3; equality with type.__mro__ needs execution.',
    ref='DESIGN.md section 3, C05')

CLAIMED['C11'] = dict(
    technique='agreement of expressions across writer, url builder and templates + census of literal link targets',
    text='Static: page files are opened at build_directory/ob.url resp. pclass.filename, Documentable.url derives the page part from '
         'page_object.fullName() only and gives index.html only to the single root itself (R11.1); the attribute used as url fragment is '
         'emitted as an <a name> by the function and attribute child templates of every theme (R11.2); the page writer recurses over all '
         'contents and writes a page for every visible OWN_PAGE object (R11.3); every literal *.html target in Python code and templates '
         'is a page written unconditionally (or index.html, written in both root configurations) and every referenced asset is shipped '
         '(R11.4); the same-page shortening strips exactly the page url (R11.5). Together with C12/R12.1 (links only through taglink, only '
         'to visible objects) this decides the link scheme, not a crawl of real output.',
    note='Assumes the default "all subjects" configuration; fragments for names needing escaping and superseded duplicates are not decided.',
    ref='DESIGN.md section 3, C11')

CLAIMED['C09'] = dict(
    technique='effect analysis of the field handlers on their CFG + def-use of accumulators + table agreement',
    text='Static, ONE clause of the property ("every field shows its text or is reported"): every FieldHandler.handle_* method stores the '
         'field in the handler state or reports it on every path - the only admissible silent paths are for classes/modules whose '
         'ivar/cvar/var/type fields extract_fields consumes (R09.1); every accumulator written by a handler is read by format() or merged '
         'by resolve_types (R09.2); every element tag the epytext parser can build has a branch in the epytext->docutils conversion '
         '(R09.3); every S{...} symbol has a code point (R09.4); a documented row removed from the parameter table is restored (R09.5). '
         'Word-for-word preservation, ordering and literal blocks are NOT decided (equalities over runtime strings).',
    note='The rest of C09 (text conservation in epytext/reST/napoleon parsers and the HTML translator) is outside static reach and is '
         'stated as undecided; two seeded parser mutants are accordingly not detected.',
    ref='DESIGN.md section 3, C09')

CLAIMED['C07'] = dict(
    technique='ordering and dominance rules on the statement CFG of the move primitive and of its decision',
    text='Static: Documentable.reparent performs all effects of a move - old registry keys dropped before and new ones inserted after the '
         'rename, entry deleted from the old parent under the old name and inserted in the new parent under the new name, alias '
         'old_name -> new qualified name evaluated after the rename, parentMod updated (R07.1); the call to reparent is dominated by '
         '`as_name in current __all__` and by `origin.all is None or origin_name not in origin.all`, nothing is exported from class/function '
         'scopes, a moved name gets no import alias (R07.2); consumers of stored qualified names re-resolve through find_object / '
         'resolveName (R07.3). Decides the move primitive and its guard, not reachability from every consumer in every analysis order.',
    note='Effects are recognised syntactically (del d[k] and d.pop(k) are equivalent); schedules are a runtime matter.',
    ref='DESIGN.md section 3, C07')

CLAIMED['C13'] = dict(
    technique='branch-table extraction + regex-AST classification (re._parser) + CFG precedence rules',
    text='Static: the regex fragment emitted for `**`, `*` and `?` denotes, under the DOTALL wrapper, exactly any run / any run without a dot / '
         'one character; other characters are escaped; the wrapper anchors the end and the compiled pattern is used with match(); `[!seq]` '
         'negates and a literal leading ^ is escaped (R13.1); in System.privacyClass pattern rules are only consulted when no exact rule '
         'matched, each scan lets the last given rule win (reversed+break or forward last-wins), the default comes from the leading '
         'underscore / dunder test and the cache is keyed by the qualified name (R13.2); rule parsing (R13.3). Does not decide the index '
         'arithmetic of the bracket branch nor equivalence with the documented matcher on all strings.',
    note='Oracle: the regex parser of the interpreter running the check.',
    ref='DESIGN.md section 3, C13')

CLAIMED['C14'] = dict(
    technique='table extraction checked against inspect.signature of a sample function + provenance fix-point on def-use chains',
    text='Static, narrow: each ast.arguments field is added with the Parameter kind the language gives it (oracle: inspect.signature of a '
         'sample function compiled by the checker), in the language order, */** without default, keyword-only zipped with kw_defaults, and '
         'the annotation collector covers the same five lists (R14.1); every value stored in Attribute.annotation / Function.annotations '
         'is None or went through unstring_annotation / infer_type on every def-use path (R14.2); `-> None` is omitted (R14.3); the '
         'signature built from a node goes to the overload XOR the function and each overload is rendered with its own object (R14.4); '
         'the default-offset formula aligns defaults to the end of the positional parameters (R14.5). Does not decide the text '
         'Signature.__str__ produces nor arbitrary layouts at run time.',
    note='Lowest-priority claim; R14.5 checks the shape of the offset expressions, not their evaluation.',
    ref='DESIGN.md section 3, C14')

CLAIMED['C20'] = dict(
    technique='who-may-call census, path rule on the validator, set comparison of option tables, sibling comparison, dominance',
    text='Static, narrow: config-file parsers are only used as config_file_parser_class of the one ArgumentParser, with the validator '
         'installed, and Options is only built by from_namespace (R20.1); an unknown key reaches warnings.warn and is not forwarded, a '
         'known key is forwarded under exactly the spelling that was looked up (R20.2); the add_argument destinations minus the popped '
         'ones equal the attrs fields of Options (R20.3); TOML and INI parsers stringify alike and turn library errors into '
         'ConfigFileParserException (R20.4); a quoted INI value is never split and is evaluated by unquote_str (R20.5); TOML is tried '
         'before INI over the same sections (R20.6). Does not decide that a particular value survives quoting.',
    note='Trusts configargparse to merge config-file values into the same argparse actions as command-line values.',
    ref='DESIGN.md section 3, C20')

CLAIMED['C16'] = dict(
    technique='statement-order / nesting rules on the CFG + default-argument and keyword census',
    text='Static, COUNTING clause only: System.msg increments violations by one under thresh < 0, not nested under the verbosity test and '
         'after the `once` filter; Documentable.report defaults to a negative threshold and forwards it (R16.1); the reporters the '
         'property names (unresolvable / ambiguous cross-reference, markup errors, field problems, parser warnings) call report() '
         'without a non-negative threshold (R16.2); driver.main sets 2 exactly under recorded parse errors, 3 exactly under '
         '`violations and warnings_as_errors` after it, after make(), and returns that value (R16.3). The line-number half of the '
         'property (arithmetic over runtime values) is NOT decided.',
    note='Line numbers of warnings are outside static reach and stated as undecided.',
    ref='DESIGN.md section 3, C16')

NOT_APPLICABLE = {
    'C04': 'relation between expandName results and the interpreter import system over all projects: value computations, no clause visible in the shape of the code (DESIGN.md section 5)',
    'C06': 'quantifies over processing schedules; name resolution during the AST walk is order sensitive by design, no structural bound (DESIGN.md section 5); the one structural fact (post-processing after the drain loop) is checked under C05',
}

PENDING = 'check under construction in this session - not claimed until its rule module is committed'


# rules added after the second seeding round (DESIGN.md sections 8 and 11): appended to the level text of each property
def rules_as_built(p: str) -> str:
    """The rule list of sa/rules/<p>.py (its module docstring is kept complete: tools/design_rules.py checks it against the rule ids used)."""
    import ast as _ast, re as _re
    doc = _ast.get_docstring(_ast.parse((HERE / 'sa' / 'rules' / f'{p.lower()}.py').read_text())) or ''
    items = []
    for line in doc.splitlines():
        m = _re.match(r'\s*(R\d\d\.\d+)\s+(.*)', line)
        if m:
            items.append(f'{m.group(1)} {m.group(2).strip()}')
        elif items and line.startswith('      ') and not _re.match(r'\s*(Does not decide|Not decided)', line):
            items[-1] += ' ' + line.strip()
    return ' Rules as built: ' + '; '.join(items) + '.' if items else ''


def main() -> None:
    props = [json.loads(l)['id'] for l in (HERE / 'properties.jsonl').read_text().splitlines() if l.strip()]
    checks = []
    na = []
    for p in props:
        if p in CLAIMED and (HERE / 'sa' / 'rules' / f'{p.lower()}.py').exists():
            c = CLAIMED[p]
            checks.append({
                'property_id': p,
                'quick_cmd': f'./check {p}',
                'thorough_cmd': f'./check {p} --thorough',
                'evidence_file': f'/verif/evidence/{p}.json',
                'replay_cmd_template': f'./check {p} --replay {{path}}',
                'engine': 'sa',
                'level_claimed': {'category': 'other', 'text': c['text'] + rules_as_built(p), 'design_ref': c['ref']},
                'level_note': c['note'],
                'technique': c['technique'],
            })
        else:
            na.append({'property_id': p, 'reason': NOT_APPLICABLE.get(p, PENDING)})
    m = {
        'version': 1,
        'setup_cmd': 'true',
        'hooks': {
            'guard': 'PYDOCTOR_VERIF',
            'enable': 'none needed: the checks parse /repo with ast and never import or run it; no instrumentation exists',
            'baseline_off_cmd': 'cd /repo && /venv/bin/python -m pytest -ra -q -p no:cacheprovider --timeout=900 --continue-on-collection-errors',
            'source_commits': [],
            'add_only': True,
        },
        'engines': [{
            'name': 'sa',
            'path': '/verif/sa',
            'serves_properties': [c['property_id'] for c in checks],
            'kind_free_text': 'repository-specific static analysis in pure stdlib Python: program index, annotation-driven call graph, '
                              'statement CFG with dominance, exception-escape fix-point, who-may-write / guard / table / slice rules',
        }],
        'checks': checks,
        'not_applicable': na,
        'notes': 'Static analysis only. exit 0 = all rule instances discharged (or listed known findings); exit 1 + VIOLATION lines = a rule '
                 'instance fails; exit 2 + ANALYSIS-ERROR = the checker could not evaluate a rule (vanished anchor, instance count below '
                 'the hand-confirmed minimum). Known findings: /verif/known_findings.json.',
    }
    (HERE / 'MANIFEST.json').write_text(json.dumps(m, indent=1) + '\n')
    print('checks:', [c['property_id'] for c in checks], 'not claimed:', [n['property_id'] for n in na])


if __name__ == '__main__':
    main()
