#!/bin/sh
# usage: [W=/tmp/wtm] [SUITE=1] verify_twin.sh <dir with patch.diff equiv.py>   (W: a scratch worktree of /repo at HEAD)
# Confirms a behaviour-preserving refactoring: patch applies, equiv.py prints the same bytes without and with the patch, suite still 1322 passed / 11 failed;
# then runs every claimed check on the refactored tree and reports the ones that are not silent.
D="$1"
W=${W:-/tmp/wtm}
T=$(mktemp -d /tmp/vtwin.XXXXXX)
export TMPDIR=$T
git -C $W checkout -q -- . && git -C $W clean -fdq
cp "$D/equiv.py" $W/_equiv.py
( cd $W && timeout 900 /venv/bin/python _equiv.py >$T/clean.out 2>$T/clean.err ); C=$?
git -C $W apply "$D/patch.diff" || { echo "TWIN $D apply-failed"; rm -rf $T; exit 1; }
( cd $W && timeout 900 /venv/bin/python _equiv.py >$T/mut.out 2>$T/mut.err ); M=$?
if cmp -s $T/clean.out $T/mut.out; then EQ=same; else EQ=DIFFERENT; fi
S=skipped
if [ "${SUITE:-1}" = 1 ]; then
  S=$( cd $W && /venv/bin/python -m pytest -q -p no:cacheprovider --timeout=900 --continue-on-collection-errors -n ${JOBS:-8} 2>&1 | tail -1 )
fi
rm -f $W/_equiv.py
NOISE=""
for c in C01 C02 C03 C05 C07 C08 C09 C10 C11 C12 C13 C14 C15 C16 C17 C18 C19 C20; do
  out=$(/verif/check $c --repo $W --no-evidence 2>&1 | grep -E "^FAIL|^ANALYSIS" | cut -c1-200 | head -3 | tr '\n' '|')
  [ -n "$out" ] && NOISE="$NOISE [$c: $out]"
done
git -C $W checkout -q -- . ; git -C $W clean -fdq
rm -rf $T
echo "TWIN $D equiv_rc=$C/$M output=$EQ suite='$S' alarms=${NOISE:-none}"
