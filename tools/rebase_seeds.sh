#!/bin/sh
# Refresh the context of seeded patches that `git apply` no longer accepts on /repo HEAD (the changed lines stay the same).
# Uses the scratch worktree /tmp/wtm (must exist); prints REBASED / FUZZ-FAIL per patch.
W=/tmp/wtm
git -C $W checkout -q -- . && git -C $W checkout -q --detach "$(git -C /repo rev-parse HEAD)"
for d in /verif/seeded/*/; do
  d=${d%/}; n=$(basename $d)
  if ! git -C $W apply --check $d/patch.diff 2>/dev/null; then
    git -C $W checkout -q -- .
    if (cd $W && patch -p1 -s -f --no-backup-if-mismatch -F3 -i $d/patch.diff >/dev/null 2>&1); then
      (cd $W && git diff) > /tmp/rb.diff
      old=$(grep '^[+-]' $d/patch.diff | grep -v '^+++\|^---' | md5sum); new=$(grep '^[+-]' /tmp/rb.diff | grep -v '^+++\|^---' | md5sum)
      if [ "$old" = "$new" ]; then cp /tmp/rb.diff $d/patch.diff; echo "REBASED $n"; else echo "CHANGED-LINES-DIFFER $n"; fi
    else echo "FUZZ-FAIL $n"; fi
    git -C $W checkout -q -- .; find $W -name '*.rej' -delete; find $W -name '*.orig' -delete
  fi
done
