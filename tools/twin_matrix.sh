#!/bin/sh
# Runs every claimed check on every stored twin (seeded/_twins/*/patch.diff applied to a scratch worktree); prints one line per twin.
# usage: twin_matrix.sh [twin ids...]   (worktrees /tmp/wtq1..3, /tmp/wtm, /tmp/wtv must exist at /repo HEAD)
OUT=${OUT:-/tmp/twin_matrix.log}
: > $OUT
if [ $# -gt 0 ]; then printf "%s\n" "$@" > /tmp/tm.list; else ls /verif/seeded/${TWDIR:-_twins} | grep -- "-[tuv][0-9]" > /tmp/tm.list; fi
i=0
for W in /tmp/wtq1 /tmp/wtq2 /tmp/wtq3 /tmp/wtm /tmp/wtv; do
  ( awk -v i=$i 'NR % 5 == i' /tmp/tm.list | while read t; do
      git -C $W checkout -q -- . && git -C $W clean -fdq
      git -C $W apply /verif/seeded/${TWDIR:-_twins}/$t/patch.diff 2>/dev/null || { echo "TW $t apply-failed" >> $OUT; continue; }
      NOISE=""
      for c in C01 C02 C03 C05 C07 C08 C09 C10 C11 C12 C13 C14 C15 C16 C17 C18 C19 C20; do
        out=$(/verif/check $c --repo $W --no-evidence 2>&1 | grep -E "^FAIL|^ANALYSIS" | cut -c1-160 | head -2 | tr '\n' '|')
        [ -n "$out" ] && NOISE="$NOISE [$c: $out]"
      done
      git -C $W checkout -q -- .
      echo "TW $t alarms=${NOISE:-none}" >> $OUT
    done ) &
  i=$((i+1))
done
wait
sort $OUT -o $OUT
grep -c "alarms=none" $OUT
