#!/bin/sh
# usage: try_patch.sh <patch.diff> <Cnn> [more props]   -- applies the patch to the scratch worktree ${WT:-/tmp/wtm} and runs the checks on it
P="$1"; shift
git -C ${WT:-/tmp/wtm} checkout -q -- . && git -C ${WT:-/tmp/wtm} apply "$P" || { echo "APPLY FAILED $P"; exit 3; }
for c in "$@"; do
  /verif/check "$c" --repo ${WT:-/tmp/wtm} --no-evidence 2>&1 | grep -E "^FAIL|^ANALYSIS|^OK|^KNOWN" | cut -c1-${WIDTH:-260}
done
git -C ${WT:-/tmp/wtm} checkout -q -- .
