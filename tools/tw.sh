#!/bin/sh
# usage: tw.sh <twin id> <checks...>  -- apply a stored twin to /tmp/wtm and show what the checks say
t=$1; shift
echo "== $t"; WIDTH=${WIDTH:-420} sh /verif/tools/try_patch.sh /verif/seeded/${TWDIR:-_twins}/$t/patch.diff "$@" | grep -v KNOWN
