#!/bin/sh
# usage: try_repair.sh <dir with demo.py repair.diff>  -- on /repo's working tree: demo before, apply the repair, demo after, suite; leaves the repair APPLIED (git -C /repo checkout -- . to undo)
D="$1"
cd /repo || exit 2
[ -z "$(git status --short)" ] || { echo "/repo not clean"; exit 2; }
cp "$D/demo.py" /repo/_demo.py
timeout 300 /venv/bin/python _demo.py > /tmp/tr_before.log 2>&1; B=$?
git apply "$D/repair.diff" || { echo "APPLY FAILED"; rm -f _demo.py; exit 3; }
timeout 300 /venv/bin/python _demo.py > /tmp/tr_after.log 2>&1; A=$?
rm -f /repo/_demo.py
S=$(/venv/bin/python -m pytest -q -p no:cacheprovider --timeout=900 --continue-on-collection-errors -n 8 2>&1 | tail -1)
F=$(/venv/bin/python -m pytest -q -p no:cacheprovider --timeout=900 --continue-on-collection-errors -n 8 2>&1 | grep FAILED | sort | diff - /verif/tools/baseline_failures.txt > /dev/null && echo same-failures || echo DIFFERENT-FAILURES)
echo "demo_before=$B demo_after=$A suite='$S' $F"
git diff --stat | tail -5
