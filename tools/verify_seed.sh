#!/bin/sh
# usage: [W=/tmp/wtm] [SUITE=1] verify_seed.sh <dir with patch.diff demo.py>   (W: a scratch worktree of /repo at HEAD)
# Confirms: patch applies, suite still 1322 passed / 11 failed, demo exits 0 without and !=0 with the patch.
D="$1"
W=${W:-/tmp/wtm}
T=$(mktemp -d /tmp/vseed.XXXXXX)
export TMPDIR=$T
git -C $W checkout -q -- . && git -C $W clean -fdq
cp "$D/demo.py" $W/_demo.py
( cd $W && timeout 600 /venv/bin/python _demo.py >$T/clean.log 2>&1 ); C=$?
git -C $W apply "$D/patch.diff" || { echo "RESULT $D apply-failed"; rm -rf $T; exit 1; }
( cd $W && timeout 600 /venv/bin/python _demo.py >$T/mut.log 2>&1 ); M=$?
S=skipped
if [ "${SUITE:-1}" = 1 ]; then
  S=$( cd $W && /venv/bin/python -m pytest -q -p no:cacheprovider --timeout=900 --continue-on-collection-errors -n ${JOBS:-8} 2>&1 | tail -1 )
fi
git -C $W checkout -q -- . ; rm -f $W/_demo.py; git -C $W clean -fdq
rm -rf $T
echo "RESULT $D demo_clean=$C demo_mutant=$M suite='$S'"
