#!/bin/sh
# usage: verify_seed.sh <dir with patch.diff demo.py>   (uses the scratch worktree /tmp/wtm at /repo HEAD)
# Confirms: patch applies, suite still 1322 passed / 11 failed, demo exits 0 without and !=0 with the patch.
D="$1"
W=/tmp/wtm
git -C $W checkout -q -- . && git -C $W clean -fdq
cp "$D/demo.py" $W/_demo.py
( cd $W && timeout 600 /venv/bin/python _demo.py >/tmp/wtm_demo_clean.log 2>&1 ); C=$?
git -C $W apply "$D/patch.diff" || { echo "RESULT $D apply-failed"; exit 1; }
( cd $W && timeout 600 /venv/bin/python _demo.py >/tmp/wtm_demo_mut.log 2>&1 ); M=$?
S=$( cd $W && /venv/bin/python -m pytest -q -p no:cacheprovider --timeout=900 --continue-on-collection-errors -n 8 2>&1 | tail -1 )
git -C $W checkout -q -- . ; rm -f $W/_demo.py; git -C $W clean -fdq
echo "RESULT $D demo_clean=$C demo_mutant=$M suite='$S'"
