#!/usr/bin/env python3
"""usage: record_fix.py <property> <rule> <what>   -- appends `fixed: property=<id> <HEAD of /repo> <what>` to known_findings.json"""
import json, subprocess, sys
prop, rule, what = sys.argv[1], sys.argv[2], sys.argv[3]
h = subprocess.check_output(['git', '-C', '/repo', 'log', '--format=%h', '-1'], text=True).strip()
p = '/verif/known_findings.json'
d = json.load(open(p))
d['findings'].append({"status": "fixed", "property": prop, "rule": rule, "commit": h, "what": what, "line": f"fixed: property={prop} {h} {what}"})
json.dump(d, open(p, 'w'), indent=1)
print('recorded', prop, rule, h)
