#!/usr/bin/env python3
"""Regenerates the `Rule list as built` blocks of DESIGN.md section 3 from the docstrings of sa/rules/cNN.py."""
import ast
import re
from pathlib import Path

HERE = Path(__file__).resolve().parent.parent
p = HERE / 'DESIGN.md'
s = p.read_text()
s = re.sub(r"\n<!-- rules:begin (C\d\d) -->.*?<!-- rules:end \1 -->\n", "\n", s, flags=re.S)
for f in sorted((HERE / 'sa' / 'rules').glob('c*.py')):
    pid = f.stem.upper()
    doc = ast.get_docstring(ast.parse(f.read_text())) or ''
    lines = [l.rstrip() for l in doc.splitlines()]
    rules = []
    cur = None
    for l in lines:
        m = re.match(r"\s*(R\d\d\.\d+)\s+(.*)", l)
        if m:
            cur = [m.group(1), m.group(2)]
            rules.append(cur)
        elif cur is not None and l.startswith('        ') and l.strip():
            cur[1] += ' ' + l.strip()
        else:
            cur = None
    nd = [l for l in lines if l.startswith('Does not decide')]
    block = (f"\n<!-- rules:begin {pid} -->\n*Rule list as built (generated from the docstring of `sa/rules/{f.name}`):*\n\n" +
             "\n".join(f"* **{r}** {t}" for r, t in rules) + ("\n\n" + nd[0] if nd else "") + f"\n<!-- rules:end {pid} -->\n")
    m = re.search(rf"^### {pid} .*$", s, flags=re.M)
    if m:
        s = s[:m.end()] + "\n" + block + s[m.end():]
s = re.sub(r"\n{4,}", "\n\n\n", s)
p.write_text(s)
print('DESIGN.md rule lists regenerated')
