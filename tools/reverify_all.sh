#!/bin/sh
# Re-run tools/verify_seed.sh for every seeded change against /repo HEAD, on 4 scratch worktrees in parallel (created and removed here).
# Output: /verif/seeded/reverify.log (one RESULT line per change)
OUT=/verif/seeded/reverify.log
H=$(git -C /repo rev-parse --short HEAD)
: > $OUT
for i in 1 2 3 4; do git -C /repo worktree add -q --detach /tmp/wtr$i HEAD || exit 2; done
ls -d /verif/seeded/C*/ | sed 's,/$,,' > /tmp/wtr.list
for i in 1 2 3 4; do
  ( awk -v i=$i 'NR % 4 == i - 1' /tmp/wtr.list | while read d; do W=/tmp/wtr$i JOBS=4 sh /verif/tools/verify_seed.sh $d >> $OUT 2>&1; done ) &
done
wait
for i in 1 2 3 4; do git -C /repo worktree remove --force /tmp/wtr$i; done
rm -f /tmp/wtr.list
echo "HEAD $H" >> $OUT
